"""Coverage-guided fuzz target (atheris / libFuzzer) for the pure-Python scans behind C10 and C11.

Run by the runner as a subprocess:  python -m twv.fuzz_scans <out.json> -runs=N -seed=S [libFuzzer flags]

Bytes are decoded into a strictly increasing array on a quarter-integer lattice, a sorted query list on the
eighth-integer lattice (so exact hits, ties and out-of-range values are all reachable by small mutations), and a
truncation request.  The semantic oracle (brute-force definitions from twv/oracles.py) is inside the target: a
disagreement writes the decoded case to <out.json> and raises, which libFuzzer reports as a crash."""
import json
import os
import sys

from twv import runner  # noqa: F401  (puts the source tree under test on sys.path)
from twv import oracles

sau = process = None


def load(instrument):
    """import the code under test, instrumented for coverage feedback when run under atheris"""
    global sau, process
    if instrument:
        import atheris
        with atheris.instrument_imports(include=["traffic_weaver"]):
            import traffic_weaver.sorted_array_utils as _sau
            import traffic_weaver.process as _process
    else:
        import traffic_weaver.sorted_array_utils as _sau
        import traffic_weaver.process as _process
    sau, process = _sau, _process


OUT = None
STATS = dict(execs=0, nontrivial=0, classes={})


class Disagreement(Exception):
    pass


def decode(data):
    import atheris
    fdp = atheris.FuzzedDataProvider(data)
    m = fdp.ConsumeIntInRange(1, 48)
    x = []
    cur = fdp.ConsumeIntInRange(-40, 40)
    for _ in range(m):
        x.append(cur / 4.0)
        cur += fdp.ConsumeIntInRange(1, 12)
    nq = fdp.ConsumeIntInRange(1, 8)
    lo, hi = int(x[0] * 8) - 12, int(x[-1] * 8) + 12
    q = sorted(fdp.ConsumeIntInRange(lo, hi) / 8.0 for _ in range(nq))
    fill = fdp.ConsumeBool()
    as_list = fdp.ConsumeBool()
    left = fdp.ConsumeIntInRange(lo, hi) / 8.0
    width = fdp.ConsumeIntInRange(1, max(2, hi - lo)) / 8.0
    return dict(x=x, q=q, fill=fill, as_list=as_list, left=left, right=left + width)


def fail(case, msg):
    case = dict(case, message=msg)
    if OUT:
        with open(OUT, "w") as f:
            json.dump(case, f)
    raise Disagreement(msg)


def check(case):
    import numpy as np
    x, q, fill = case["x"], case["q"], case["fill"]
    xa = list(x) if case["as_list"] else np.array(x)
    got = [int(v) for v in sau.find_closest_lower_equal_element_indices_to_values(xa, q, fill)]
    if got != oracles.search(x, q, "lower", fill):
        fail(case, f"lower: {got} != {oracles.search(x, q, 'lower', fill)}")
    got = [int(v) for v in sau.find_closest_higher_equal_element_indices_to_values(xa, q, fill)]
    if got != oracles.search(x, q, "higher", fill):
        fail(case, f"higher: {got} != {oracles.search(x, q, 'higher', fill)}")
    got = [int(v) for v in sau.find_closest_lower_or_higher_element_indices_to_values(xa, q)]
    if got != oracles.search(x, q, "closest"):
        fail(case, f"closest: {got} != {oracles.search(x, q, 'closest')}")
    for strat in ("lower", "higher", "closest"):
        got = [int(v) for v in sau.find_closest_element_indices_to_values(xa, q, strategy=strat, fill_not_valid=fill)]
        if got != oracles.search(x, q, strat, fill):
            fail(case, f"dispatch {strat}: {got} != {oracles.search(x, q, strat, fill)}")
    # truncation (C11): smallest contiguous run covering [left, right]
    if len(x) >= 2:
        tag = [float(i) for i in range(len(x))]
        tx, ty = process.truncate(np.array(x), np.array(tag), case["left"], case["right"])
        a = oracles.lower_index(x, case["left"], True)
        b = oracles.higher_index(x, case["right"], True)
        if [float(v) for v in tx] != x[a:b + 1] or [float(v) for v in ty] != tag[a:b + 1]:
            fail(case, f"truncate [{case['left']}, {case['right']}]: kept {list(map(float, tx))}, expected {x[a:b + 1]}")


def classify(case):
    x, q = case["x"], case["q"]
    cls = set()
    xs_ = set(x)
    for v in q:
        if v < x[0] or v > x[-1]:
            cls.add("out-of-range")
        elif v in xs_:
            cls.add("exact-hit")
        else:
            lo = max(e for e in x if e <= v)
            hi = min(e for e in x if e >= v)
            cls.add("tie" if v - lo == hi - v else "between")
    return cls


def test_one_input(data):
    case = decode(data)
    STATS["execs"] += 1
    cls = classify(case)
    if cls & {"out-of-range", "exact-hit", "tie"}:
        STATS["nontrivial"] += 1
    for c in cls:
        STATS["classes"][c] = STATS["classes"].get(c, 0) + 1
    if STATS["execs"] <= 3:
        STATS.setdefault("samples", []).append(case)
    check(case)


def replay(case):
    """used by the runner's replay path (no atheris needed)"""
    if sau is None:
        load(False)
    try:
        check(case)
    except Disagreement as e:
        return str(e)
    return None


def main():
    global OUT
    OUT = sys.argv[1]
    stats_path = OUT + ".stats"
    argv = [sys.argv[0]] + sys.argv[2:]
    import atheris
    load(True)
    # atexit does not run under libFuzzer: statistics are flushed from the target instead

    def target(data):
        try:
            test_one_input(data)
        finally:
            if STATS["execs"] % 2000 == 0 or STATS["execs"] < 5:
                with open(stats_path, "w") as f:
                    json.dump(STATS, f)
    atheris.Setup(argv, target)
    atheris.Fuzz()


if __name__ == "__main__":
    main()
