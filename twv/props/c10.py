"""C10 - nearest-sample search returns the defined neighbour for every query."""
import itertools
import math

import numpy as np
from hypothesis import strategies as st

from twv import oracles
from twv.runner import Sub, Violation
from twv.gens import fl, xs

import traffic_weaver.sorted_array_utils as sau

PROPERTY = "C10"
LEVEL = "exploration"
RULE = ("lattice: every strictly increasing array of <=6 elements over {0..L-1} x every non-decreasing query tuple "
        "(1..Q values) over the half-integer lattice {-1,-0.5,..,L} (quick L=7,Q=3; thorough L=9,Q=4; enumerated "
        "completely), each run through the three scans with fill on/off and through the dispatcher, as list / "
        "int64 / float64 inputs; floats: Hypothesis arrays of 1..200 floats with queries equal to, 1 ulp beside, "
        "midway between and beyond elements. Non-trivial = the query tuple contains an out-of-range value, an "
        "exact hit or an exact tie; distinct = distinct (array, queries) pair.")
ASSUMPTIONS = ["arrays strictly increasing and query lists non-decreasing and non-empty (documented precondition)",
               "float 'closest' ties: when the exact distances to both neighbours differ by less than 2 ulp both "
               "answers are accepted"]


def _call(fn, *a, **k):
    res = fn(*a, **k)
    if not isinstance(res, np.ndarray) or res.ndim != 1 or not np.issubdtype(res.dtype, np.integer):
        raise Violation(f"{fn.__name__} returned {type(res).__name__} dtype={getattr(res, 'dtype', None)}")
    return [int(v) for v in res]


def _variant(x, q, variant):
    if variant == 0:
        return list(x), list(q)
    if variant == 1:
        return np.array(x, dtype=np.int64) if all(float(v).is_integer() for v in x) else np.array(x), np.array(q)
    return np.array(x, dtype=float), list(q)


def _check_all(x, q, variant, closest_sets=None):
    xa, qa = _variant(x, q, variant)
    exp_lower_fill = oracles.search(x, q, "lower", True)
    exp_lower_nofill = oracles.search(x, q, "lower", False)
    exp_higher_fill = oracles.search(x, q, "higher", True)
    exp_higher_nofill = oracles.search(x, q, "higher", False)
    checks = [
        ("lower fill", _call(sau.find_closest_lower_equal_element_indices_to_values, xa, qa), exp_lower_fill),
        ("lower default", _call(sau.find_closest_lower_equal_element_indices_to_values, xa, qa, True),
         exp_lower_fill),
        ("lower nofill", _call(sau.find_closest_lower_equal_element_indices_to_values, xa, qa, False),
         exp_lower_nofill),
        ("higher fill", _call(sau.find_closest_higher_equal_element_indices_to_values, xa, qa), exp_higher_fill),
        ("higher nofill", _call(sau.find_closest_higher_equal_element_indices_to_values, xa, qa, False),
         exp_higher_nofill),
        ("dispatch lower", _call(sau.find_closest_element_indices_to_values, xa, qa, strategy="lower"),
         exp_lower_fill),
        ("dispatch lower nofill",
         _call(sau.find_closest_element_indices_to_values, xa, qa, strategy="lower", fill_not_valid=False),
         exp_lower_nofill),
        ("dispatch higher", _call(sau.find_closest_element_indices_to_values, xa, qa, strategy="higher"),
         exp_higher_fill),
        ("dispatch higher nofill",
         _call(sau.find_closest_element_indices_to_values, xa, qa, strategy="higher", fill_not_valid=False),
         exp_higher_nofill),
    ]
    for name, got, want in checks:
        if got != want:
            raise Violation(f"{name}: got {got}, expected {want}", detail=dict(x=list(x), q=list(q)))
    for name, got in (("closest", _call(sau.find_closest_lower_or_higher_element_indices_to_values, xa, qa)),
                      ("dispatch closest", _call(sau.find_closest_element_indices_to_values, xa, qa)),
                      ("dispatch closest explicit",
                       _call(sau.find_closest_element_indices_to_values, xa, qa, strategy="closest"))):
        if len(got) != len(q):
            raise Violation(f"{name}: length {len(got)} != {len(q)}")
        for j, (g, qq) in enumerate(zip(got, q)):
            allowed = closest_sets[j] if closest_sets is not None else {oracles.closest_index(x, qq)}
            if g not in allowed:
                raise Violation(f"{name}: query {qq!r} -> {g}, expected one of {sorted(allowed)}",
                                detail=dict(x=list(x), q=list(q), got=got))


def _classify(x, q):
    cls = set()
    nt = False
    xs_ = set(x)
    for v in q:
        if v < x[0] or v > x[-1]:
            cls.add("out-of-range")
            nt = True
        elif v in xs_:
            cls.add("exact-hit")
            nt = True
        else:
            lo = max(e for e in x if e <= v)
            hi = min(e for e in x if e >= v)
            if v - lo == hi - v:
                cls.add("tie")
                nt = True
            else:
                cls.add("between")
    if len(set(q)) < len(q):
        cls.add("duplicate-queries")
    if len(x) == 1:
        cls.add("single-element")
    return cls, nt


# ---- exhaustive lattice ---------------------------------------------------------------------------------------

def lattice_cases(ctx, shard, nshards):
    L, Q = ctx.pick((7, 3), (9, 4))
    lattice = [v / 2.0 for v in range(-2, 2 * L + 1)]
    idx = 0
    for size in range(1, min(6, L) + 1):
        for arr in itertools.combinations(range(L), size):
            for k in range(1, Q + 1):
                for qs in itertools.combinations_with_replacement(lattice, k):
                    if idx % nshards == shard:
                        yield dict(x=list(arr), q=list(qs), variant=idx % 3)
                    idx += 1


def lattice_body(ctx, case):
    x, q = case["x"], case["q"]
    _check_all(x, q, case["variant"])
    cls, nt = _classify(x, q)
    cls.add(f"variant{case['variant']}")
    ctx.record(case, cls, nt)


# ---- random floats -----------------------------------------------------------------------------------------------

@st.composite
def float_case(draw, ctx):
    big = draw(st.integers(0, 19)) == 0
    if big:
        # long arrays around round sizes (size-dependent code paths), generated cheaply
        m = draw(st.sampled_from([1000, 2047, 2048, 2049, 4096, 5000]))
        xd = draw(xs(m, kinds=["unit", "fstep", "motif", "hours", "epoch"], allow_int=False))
    else:
        m = draw(st.integers(1, ctx.pick(60, 200)))
        xd = draw(xs(m, allow_int=False))
    x = xd["x"]
    nq = draw(st.integers(1, 12))
    qs = []
    for _ in range(nq):
        kind = draw(st.sampled_from(["elem", "ulp+", "ulp-", "mid", "between", "below", "above", "dup", "near-mid",
                                     "near-mid"]))
        i = draw(st.one_of(st.sampled_from([0, m - 1]), st.integers(0, m - 1)))
        if kind == "elem":
            v = x[i]
        elif kind == "ulp+":
            v = math.nextafter(x[i], math.inf)
        elif kind == "ulp-":
            v = math.nextafter(x[i], -math.inf)
        elif kind == "mid" and i + 1 < m:
            v = x[i] + (x[i + 1] - x[i]) / 2
        elif kind == "near-mid" and i + 1 < m:
            # just off the midpoint of a gap: the nearer neighbour is well defined but only by a small margin
            k = draw(st.integers(8, 44))
            sgn = draw(st.sampled_from([-1.0, 1.0]))
            v = x[i] + (x[i + 1] - x[i]) * (0.5 + sgn * 2.0 ** -k)
        elif kind == "between" and i + 1 < m:
            t = draw(fl(0.0, 1.0))
            v = x[i] + t * (x[i + 1] - x[i])
        elif kind == "below":
            v = x[0] - draw(fl(0.0, 10.0))
        elif kind == "above":
            v = x[-1] + draw(fl(0.0, 10.0))
        elif kind == "dup" and qs:
            v = qs[draw(st.integers(0, len(qs) - 1))]
        else:
            v = x[i]
        qs.append(float(v))
    qs.sort()
    return dict(x=x, q=qs, variant=draw(st.sampled_from([0, 2])), xkind=xd["kind"])


def float_body(ctx, case):
    x, q = case["x"], case["q"]
    closest_sets = [oracles.closest_candidates(x, v) for v in q]
    _check_all(x, q, case["variant"], closest_sets)
    cls, nt = _classify(x, q)
    if any(len(s) > 1 for s in closest_sets):
        cls.add("ambiguous-accepted")
    cls.add("x:" + case.get("xkind", "?"))
    if len(x) >= 1000:
        cls.add("long-array")
    ctx.record(case, cls, nt)


def fuzz_body(ctx, case):
    """replay of a case found by the coverage-guided campaign"""
    from twv import fuzz_scans
    msg = fuzz_scans.replay(case)
    if msg:
        raise Violation(msg)
    ctx.record(case, ["fuzz-replay"], True)


SUBCHECKS = [
    Sub("lattice", "enum", lattice_body, cases=lattice_cases, shards=16, exhaustive=True,
        clause="all three searches, fill on/off, dispatcher: exact agreement with the brute-force definition"),
    Sub("floats", "hyp", float_body, strategy=float_case, quick=600, thorough=16000,
        clause="same on float arrays with ulp-adjacent, midpoint and out-of-range queries"),
    Sub("fuzz", "fuzz", fuzz_body, machine="twv.fuzz_scans", quick=20000, thorough=600000, shards=16,
        clause="coverage-guided (atheris/libFuzzer) search over arrays of <= 48 elements on a quarter-integer lattice "
               "with queries on the eighth-integer lattice: three scans, dispatcher, and truncation (C11) against the "
               "brute-force definitions"),
]

TECHNIQUE = ("exhaustive enumeration of a finite lattice (itertools, 16 processes) + Hypothesis-generated float "
             "arrays, both against a brute-force reference model of the three searches")
LEVEL_TEXT = ("Complete enumeration of all arrays/queries on a small integer/half-integer lattice (every branch and "
              "boundary of the three two-pointer scans is reached there, since the scans only compare values) plus "
              "randomized float inputs with ulp-adjacent and midpoint queries; exact comparison with a brute-force "
              "definition. Exploration, not proof: arrays longer than 6 elements are only sampled.")
LEVEL_NOTE = ("trusts the brute-force oracle in twv/oracles.py (a dozen lines, exact rational distance comparison); "
              "inputs restricted to strictly increasing arrays and sorted non-empty query lists")
