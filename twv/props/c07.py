"""C07 - recreation commutes with changes of units and acts locally."""
import numpy as np
from hypothesis import strategies as st

from twv import gens, rfagen
from twv.gens import fl
from twv.runner import Sub, Violation

PROPERTY = "C07"
LEVEL = "exploration"
RULE = ("Hypothesis draws a strategy, series, n and parameters (C04 generator) plus a map: value map y->p*y+q "
        "(generic reals for the four non-adaptive strategies; p = +-2^k, q integer on integer-valued y for the "
        "adaptive ones), time map x->c*x+d with c>0, a single changed average y_j, or a second series to add; "
        "two to n+1 runs of the strategy are compared (metamorphic relations). Non-trivial = the map is not the "
        "identity on a non-constant series; for locality the changed interval is >= 3 intervals from both ends.")
ASSUMPTIONS = ["adaptive strategies are tested with exactly representable value maps only (their integer windows are "
               "discontinuous in the data)",
               "tolerances 1e-9 of the value scale (1e-6 for the cubic spline), plus the conditioning of relative "
               "positions (1024*eps*max|x|/substep) for time maps"]
TECHNIQUE = "metamorphic testing with Hypothesis: equivariance under affine maps of values and time, locality of a " \
            "single-average change, additivity / partition of unity / non-negativity of impulse responses"
LEVEL_TEXT = ("Metamorphic exploration: relations between several runs of the same strategy, needing no expected "
              "values; catches dependence on absolute magnitudes, on x values instead of sample counts, and "
              "over-reach into non-adjacent intervals.")
LEVEL_NOTE = "relations follow from the statement; tolerances as stated"

EPS = 2.0 ** -52
NONADAPTIVE = ["PiecewiseConstantRFA", "CubicSplineRFA", "LinearFixedRFA", "ExpFixedRFA"]


def _tol(name):
    return 1e-6 if name == "CubicSplineRFA" else 1e-9


def _cond(x, n):
    sub = min(b - a for a, b in zip(x[:-1], x[1:])) / n
    return max(abs(v) for v in x) / sub


# ---- value map ------------------------------------------------------------------------------------------------------

@st.composite
def value_case(draw, ctx):
    name = draw(st.sampled_from(gens.STRATEGY_NAMES))
    if name in gens.ADAPTIVE:
        case = draw(rfagen.rfa_case(ctx, strategies=[name], ykinds=["int", "ties"], m_lo=2))
        p = draw(st.sampled_from([2.0, 0.5, -1.0, -2.0, 4.0, 0.125, -0.25, 8.0, 1.0, 2.0 ** -12, 2.0 ** -20,
                                  -2.0 ** -16, 2.0 ** 12, 2.0 ** 20, 2.0 ** -40, -2.0 ** -33, 2.0 ** 40]))
        q = float(draw(st.integers(-50, 50)))
        if len(case["y"]) >= 3 and draw(st.integers(0, 2)) == 0:
            # jumps in simple ratios (1:1, 1:8, 1:27 ...), a window that is not a power of two and a fractional
            # smoothing exponent: the window split a*gamma/(1+gamma) sits on or next to an integer, where any
            # dependence of gamma on the unit of the values flips a sample from one window to the other
            m = len(case["y"])
            steps = [draw(st.sampled_from([1, 1, 1, 8, 27, 2, 4, -1, -8, -27, 3])) for _ in range(m - 1)]
            y = [float(draw(st.integers(-5, 5)))]
            for d in steps:
                y.append(y[-1] + d)
            case["y"] = y
            case.pop("ydtype", None)
            case["n"] = draw(st.sampled_from([6, 10, 12, 20, 24]))
            win = draw(st.sampled_from([dict(alpha=0.5), dict(alpha=1.0), dict(a=6), dict(a=10), dict(a=12), {}]))
            if win.get("a", 0) > case["n"]:
                win = {}
            keep = {k: v for k, v in case["kw"].items() if k not in ("a", "alpha", "adaptive_smooth")}
            case["kw"] = dict(keep, **win, adaptive_smooth=draw(st.sampled_from([0.5, 1.5, 1.0 / 3.0, 2.0 / 3.0, 0.7, 2.5])))
            case["ykind"] = "simple-ratio-jumps"
    else:
        case = draw(rfagen.rfa_case(ctx, strategies=[name], m_lo=2))
        p = draw(st.one_of(st.sampled_from([-1.0, 2.0, 1.0]), fl(0.01, 100.0), fl(-100.0, -0.01)))
        q = draw(st.one_of(st.sampled_from([0.0, 1.0]), fl(-1e3, 1e3)))
    case["p"], case["q"] = p, q
    return case


def value_body(ctx, case):
    p, q = case["p"], case["q"]
    xs1, z1 = rfagen.run_rfa(case)
    y2 = [p * v + q for v in case["y"]]
    case2 = dict(case, y=y2)
    xs2, z2 = rfagen.run_rfa(case2)
    if not np.array_equal(xs1, xs2):
        raise Violation("abscissae depend on the values")
    want = p * z1 + q
    # the map must be reproduced relative to the size of the mapped *variation* |p|*|z| (a shift q much larger than
    # that only contributes its rounding): otherwise thresholds on absolute jump sizes hide behind a large q
    vscale = abs(p) * float(np.max(np.abs(z1))) + 1e-300
    tol = _tol(case["strategy"]) * vscale + (1e-10 if case["strategy"] == "CubicSplineRFA" else 64 * EPS) * (
        abs(q) + vscale)
    dev = float(np.max(np.abs(z2 - want)))
    if dev > tol:
        i = int(np.argmax(np.abs(z2 - want)))
        raise Violation(f"{case['strategy']}: rfa(x, {p!r}*y+{q!r}) differs from {p!r}*rfa(x,y)+{q!r} at sample {i}: "
                        f"{z2[i]!r} vs {want[i]!r}", detail=dict(kw=case["kw"], n=case["n"]))
    nonconst = len(set(case["y"])) > 1
    cls = rfagen.classes(case) + ["p<0" if p < 0 else "p>0"]
    ctx.record(case, cls, nonconst and (p != 1.0 or q != 0.0))


# ---- time map -------------------------------------------------------------------------------------------------------

@st.composite
def time_case(draw, ctx):
    case = draw(rfagen.rfa_case(ctx, m_lo=2, max_ratio=1e2))
    case["xint"] = False
    case["x"] = [float(v) for v in case["x"]]
    case["c"] = draw(st.one_of(st.sampled_from([2.0, 0.5, 3600.0, 1.0]), fl(1e-3, 1e3)))
    case["d"] = draw(st.one_of(st.sampled_from([0.0, 1.0, -5.0]), fl(-1e3, 1e3)))
    return case


def time_body(ctx, case):
    c, d = case["c"], case["d"]
    xs1, z1 = rfagen.run_rfa(case)
    x2 = [c * v + d for v in case["x"]]
    gaps2 = [b - a for a, b in zip(x2[:-1], x2[1:])]
    if min(gaps2) / case["n"] <= 1e6 * float(np.spacing(max(abs(v) for v in x2))):
        # the mapped abscissae (e.g. nanosecond gaps shifted to 512) leave no room for n distinct sub-steps
        ctx.count("degenerate-map-skipped")
        return
    case2 = dict(case, x=x2)
    xs2, z2 = rfagen.run_rfa(case2)
    n = case["n"]
    wantx = c * xs1 + d
    xscale = float(np.max(np.abs(wantx)) + abs(d)) + 1e-300
    if float(np.max(np.abs(xs2 - wantx))) > 16 * EPS * xscale:
        raise Violation("abscissae of rfa(c*x+d, y) differ from c*xs+d")
    rel = _tol(case["strategy"]) + 1024 * EPS * (_cond(case["x"], n) + _cond(x2, n))
    if case["strategy"] == "CubicSplineRFA":
        rel *= 100
    scale = float(np.max(np.abs(z1))) + 1e-300
    dev = float(np.max(np.abs(z2 - z1)))
    if dev > rel * scale:
        i = int(np.argmax(np.abs(z2 - z1)))
        raise Violation(f"{case['strategy']}: values change under x -> {c!r}*x+{d!r} at sample {i}: {z1[i]!r} -> "
                        f"{z2[i]!r} (tol {rel * scale:.3g})", detail=dict(kw=case["kw"], n=n))
    nonconst = len(set(case["y"])) > 1
    ctx.record(case, rfagen.classes(case), nonconst and (c != 1.0 or d != 0.0))


# ---- locality -------------------------------------------------------------------------------------------------------

@st.composite
def local_case(draw, ctx):
    name = draw(st.sampled_from([s for s in gens.STRATEGY_NAMES if s != "CubicSplineRFA"]))
    # alpha stays in the documented range (0, 1]: for alpha > 1 (window longer than the interval) the adaptive
    # strategies of the unchanged tree already reach three intervals, so nothing is claimed there
    case = draw(rfagen.rfa_case(ctx, strategies=[name], m_lo=3, m_hi=ctx.pick(16, 40), n_hi=ctx.pick(16, 32)))
    m = len(case["y"])
    case["j"] = draw(st.integers(0, m - 1))
    case["delta"] = draw(st.one_of(st.sampled_from([1.0, -1.0, 0.5, 100.0]), fl(-1e3, 1e3)))
    if m >= 7 and draw(st.integers(0, 2)) == 0:
        # an isolated spike far from the changed average: a step many times the typical one (whatever statistic of
        # the whole series the code might consult, the intervals around the spike must not react to average j)
        far = [i for i in range(m) if abs(i - case["j"]) >= 4]
        if far:
            sidx = draw(st.sampled_from(far))
            steps = [abs(b - a) for a, b in zip(case["y"][:-1], case["y"][1:])]
            typical = max(sorted(steps)[len(steps) // 2], 1e-3 * (max(abs(v) for v in case["y"]) + 1.0))
            y = list(case["y"])
            y[sidx] = y[sidx] + draw(st.sampled_from([1.0, -1.0])) * typical * draw(st.sampled_from([15.0, 40.0, 200.0]))
            if not case.get("ydtype"):
                case["y"] = y
                case["spike"] = sidx
    return case


def local_body(ctx, case):
    j, delta = case["j"], case["delta"]
    y2 = list(case["y"])
    y2[j] = y2[j] + delta
    if case["strategy"] in gens.ADAPTIVE:
        sm = case["kw"].get("adaptive_smooth", 1.0)
        if not (gens.jump_ratio_ok(case["y"], smooth=sm) and gens.jump_ratio_ok(y2, smooth=sm)):
            # extreme jump ratios (a denormal-size change next to an O(1) jump): the adaptive factor leaves
            # [2^-30, 2^30], the region of the known findings KF-2 / KF-3 (window rounding, overflow -> ValueError)
            ctx.count("excluded_known_KF3")
            return
    xs1, z1 = rfagen.run_rfa(case)
    xs2, z2 = rfagen.run_rfa(dict(case, y=y2))
    n = case["n"]
    m = len(y2)
    reach = 2 if case["strategy"] in gens.ADAPTIVE else 1
    changed = np.where(z1 != z2)[0]
    for i in changed:
        k = int(i) // n
        if not (j - reach <= k <= j + reach):
            raise Violation(f"{case['strategy']}: changing average {j} by {delta!r} changed sample {int(i)} of interval "
                            f"{k} ({z1[i]!r} -> {z2[i]!r}); allowed reach is {reach} interval(s)",
                            detail=dict(kw=case["kw"], n=n, y=case["y"]))
    far = min(j, m - 1 - j) >= 3
    cls = rfagen.classes(case) + ["far-from-ends" if far else "near-end"] + (["distant-spike"] if "spike" in case else [])
    ctx.record(case, cls, far and y2[j] != case["y"][j])


# ---- linearity of the non-adaptive strategies -------------------------------------------------------------------------

@st.composite
def linear_case(draw, ctx):
    name = draw(st.sampled_from(NONADAPTIVE))
    case = draw(rfagen.rfa_case(ctx, strategies=[name], m_lo=2, m_hi=ctx.pick(10, 24), n_hi=ctx.pick(12, 32)))
    m = len(case["y"])
    case["y2"] = draw(gens.ys(m))["y"]
    case["j"] = draw(st.integers(0, m - 1))
    return case


def linear_body(ctx, case):
    name = case["strategy"]
    m = len(case["y"])
    _, z1 = rfagen.run_rfa(case)
    _, z2 = rfagen.run_rfa(dict(case, y=case["y2"]))
    ysum = [a + b for a, b in zip(case["y"], case["y2"])]
    _, zs = rfagen.run_rfa(dict(case, y=ysum))
    scale = float(np.max(np.abs(z1)) + np.max(np.abs(z2)) + np.max(np.abs(zs))) + 1e-300
    if float(np.max(np.abs(zs - (z1 + z2)))) > _tol(name) * scale:
        i = int(np.argmax(np.abs(zs - (z1 + z2))))
        raise Violation(f"{name}: rfa(y1+y2) != rfa(y1)+rfa(y2) at sample {i}: {zs[i]!r} vs {z1[i] + z2[i]!r}",
                        detail=dict(kw=case["kw"], n=case["n"]))
    _, one = rfagen.run_rfa(dict(case, y=[1.0] * m))
    if float(np.max(np.abs(one - 1.0))) > _tol(name):
        raise Violation(f"{name}: weights do not sum to one (rfa(x, 1) deviates by {float(np.max(np.abs(one - 1.0))):.3g})")
    e = [0.0] * m
    e[case["j"]] = 1.0
    _, imp = rfagen.run_rfa(dict(case, y=e))
    if name != "CubicSplineRFA" and float(np.min(imp)) < -1e-12:
        raise Violation(f"{name}: negative weight {float(np.min(imp))!r} in the response to a unit impulse at {case['j']}",
                        detail=dict(kw=case["kw"], n=case["n"]))
    ctx.record(case, rfagen.classes(case), len(set(case["y"])) > 1 and len(set(case["y2"])) > 1)


SUBCHECKS = [
    Sub("value_map", "hyp", value_body, strategy=value_case, quick=1200, thorough=30000,
        clause="y -> a*y+b commutes with recreation"),
    Sub("time_map", "hyp", time_body, strategy=time_case, quick=1000, thorough=24000,
        clause="x -> c*x+d commutes with recreation"),
    Sub("locality", "hyp", local_body, strategy=local_case, quick=1200, thorough=30000,
        clause="changing one average changes values only in that interval and its neighbours (two for adaptive)"),
    Sub("linearity", "hyp", linear_body, strategy=linear_case, quick=800, thorough=16000,
        clause="non-adaptive strategies are linear with weights summing to one and (spline excepted) non-negative"),
]
