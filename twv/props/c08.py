"""C08 - reference series tracks domain transformations through any history."""
import itertools

import numpy as np
from hypothesis import strategies as st
from hypothesis.stateful import RuleBasedStateMachine, initialize, rule, precondition

from twv import gens, rfagen, weaver_ops as wo
from twv.gens import fl
from twv.runner import Sub, Violation
from twv.props import c02

from traffic_weaver import Weaver

PROPERTY = "C08"
LEVEL = "exploration"
RULE = ("machine: Hypothesis rule-based state machine over the ten domain operations (append, shift_x/y, scale_x/y, "
        "normalize_x/y, repeat, truncate by value on-/off-grid or by ratio, truncate by index) with admissible "
        "generated arguments, up to 8 steps on series of 4..30 points, closed by a terminal recreate+match (+ one "
        "more reshaping operation) step; invariant after every step. alphabet: all sequences of length 0..2 (quick) "
        "/ 0..4 (thorough) over 20 concrete letters x 3 base series, enumerated completely. commute: shift/scale "
        "before vs after recreate+match. Non-trivial = history with >= 2 different operation kinds of which at "
        "least one changes the length; distinct = distinct trace.")
ASSUMPTIONS = ["arguments admissible: scale_x > 0, scale_y != 0, min_val < max_val, non-constant data for "
               "normalisation, >= 4 samples kept, abscissae stay distinguishable (min gap >= 1e-9 * max|x|)",
               "model vs code tolerance 1e-9 * amplification (cancellation in shifts / normalisation) * magnitude; "
               "working vs reference series: bitwise"]
TECHNIQUE = "stateful model-based testing (Hypothesis RuleBasedStateMachine) against a pure model of the ten domain " \
            "operations, plus exhaustive enumeration of short histories over a fixed alphabet"
LEVEL_TEXT = ("Model-based exploration of operation histories: after every step working == reference (bitwise) "
              "== model (to rounding) and the original is intact; terminal recreate+match reproduces the model's "
              "averages and never touches the reference. All histories up to length 3 over a 20-letter alphabet are "
              "enumerated; longer ones are sampled.")
LEVEL_NOTE = "trusts the pure model in twv/weaver_ops.py (model_apply) and the C02 judge for the terminal step"


class DomainSession:
    """Applies concrete domain operations to a Weaver and to the model; invariant after every step."""

    def __init__(self, init):
        self.init = init
        dt = np.int64 if init.get("xint") else float
        x0 = np.array(init["x"], dtype=dt)
        y0 = np.array(init["y"], dtype=float)
        if init.get("xnone"):
            # abscissae left to the constructor: the sample index 0..m-1 (x0 is exactly that, see the generators)
            self.w = Weaver(None, y0.copy())
        else:
            self.w = Weaver(x0.copy(), y0.copy())
        self.mx, self.my = x0.astype(float), y0.astype(float)
        self.ox, self.oy = x0.copy(), y0.copy()
        self.omx, self.omy = x0.astype(float), y0.astype(float)
        self.norm_x = self.norm_y = False
        self.amp_x = self.amp_y = 1.0
        self.ops = []
        self.failed = False
        self.guard(self.check, "construction")

    def trace(self):
        return dict(init=self.init, ops=list(self.ops))

    def fail(self, msg, detail=None):
        raise Violation(msg, case=self.trace(), detail=detail)

    def admissible(self, op):
        """documented preconditions, evaluated on the model"""
        k = op["op"]
        if k in ("normalize_y",) and float(np.max(self.my) - np.min(self.my)) <= 1e-9 * float(np.max(np.abs(self.my)) + 1e-300):
            return False
        if k == "repeat" and len(self.mx) * op["n"] > 400:
            return False
        try:
            nx, ny = wo.model_apply(self.mx, self.my, op)
        except (IndexError, ValueError, ZeroDivisionError):
            return False
        if len(nx) < 4 or len(nx) != len(ny):
            return False
        if not np.all(np.isfinite(nx)) or not np.all(np.isfinite(ny)):
            return False
        if float(np.min(np.diff(nx))) < 1e-9 * float(np.max(np.abs(nx))):
            return False
        if k == "truncate_value":
            a, b, left, right = wo.model_truncate_bounds([float(v) for v in self.mx], op["left"], op["right"],
                                                         op["lr"], op["rr"])
            if not left < right:
                return False
            # the model and the object's observable abscissae may differ in the last bits; if that changes which
            # samples the bounds select, the bounds sit within rounding distance of a sample: ambiguous, not issued
            ax = [float(v) for v in self.w.get()[0]]
            if len(ax) != len(self.mx):
                return True
            a2, b2, l2, r2 = wo.model_truncate_bounds(ax, op["left"], op["right"], op["lr"], op["rr"])
            if (a2, b2) != (a, b) or not l2 < r2:
                return False
            tol = 64 * np.spacing(float(np.max(np.abs(self.mx)))) * max(1.0, self.amp_x)
            if op["lr"] and np.min(np.abs(self.mx - left)) < tol:
                return False
            if op["rr"] and np.min(np.abs(self.mx - right)) < tol:
                return False
        return True

    def guard(self, fn, *a):
        import warnings
        from twv.runner import as_violation
        try:
            with warnings.catch_warnings():
                warnings.simplefilter("ignore")
                return fn(*a)
        except Exception as e:
            self.failed = True
            v = as_violation(e, self.trace())
            if v is None:
                raise
            DomainSession.last_violation = v
            if v is e:
                raise
            raise v from None

    def do(self, op):
        self.guard(self._do, op)

    def terminal(self, op):
        self.guard(self._terminal, op)

    def _do(self, op):
        self.ops.append(op)
        k = op["op"]
        before_x, before_y = self.mx, self.my
        wo.apply_op(self.w, op)
        self.mx, self.my = wo.model_apply(self.mx, self.my, op)
        if k.endswith("_x"):
            self.amp_x *= wo.amplification(before_x, self.mx, op)
        if k.endswith("_y"):
            self.amp_y *= wo.amplification(before_y, self.my, op)
        if k == "normalize_x":
            self.omx = wo.model_normalize(self.omx, op["lo"], op["hi"])
            self.norm_x = True
        if k == "normalize_y":
            self.omy = wo.model_normalize(self.omy, op["lo"], op["hi"])
            self.norm_y = True
        self.check(f"after step {len(self.ops)} ({k})")

    def check(self, when):
        x, y = wo.well_formed(self.w.get(), f"get() {when}")
        rx, ry = wo.well_formed(self.w.get_reference(), f"get_reference() {when}")
        if len(x) != len(rx) or not (np.array_equal(x, rx) and np.array_equal(y, ry)):
            self.fail(f"{when}: working and reference series differ "
                      f"(lengths {len(x)}/{len(rx)}, first difference at "
                      f"{_first_diff(x, y, rx, ry)})")
        if x.dtype != rx.dtype or y.dtype != ry.dtype:
            self.fail(f"{when}: working dtype {x.dtype}/{y.dtype} != reference dtype {rx.dtype}/{ry.dtype}")
        for nm, got, want, amp in (("x", x, self.mx, self.amp_x), ("y", y, self.my, self.amp_y)):
            if len(got) != len(want):
                self.fail(f"{when}: {nm} has {len(got)} samples, the model has {len(want)}")
            tol = 1e-9 * amp * float(np.max(np.abs(want))) + 1e-300
            dev = np.abs(got - want)
            if float(np.max(dev)) > tol:
                i = int(np.argmax(dev))
                self.fail(f"{when}: {nm}[{i}] = {got[i]!r}, the original with the same transformations gives "
                          f"{want[i]!r} (tol {tol:.3g})")
        ox, oy = wo.well_formed(self.w.get_original(), f"get_original() {when}", strict_x=True)
        for nm, got, init, model, normed in (("x", ox, self.ox, self.omx, self.norm_x),
                                             ("y", oy, self.oy, self.omy, self.norm_y)):
            if not normed:
                # the values the Weaver was constructed with (a Weaver that stores them as float64 keeps them too)
                if got.shape != init.shape or not np.array_equal(got, init):
                    self.fail(f"{when}: original {nm} changed")
            else:
                tol = 1e-9 * float(np.max(np.abs(model))) + 1e-300
                if len(got) != len(model) or float(np.max(np.abs(got - model))) > tol:
                    self.fail(f"{when}: original {nm} is not the normalised original")

    # -- terminal step: reshaping never alters the reference, recreate+match reproduces the model's averages ----
    def _terminal(self, op):
        self.ops.append(dict(op, op="terminal"))
        ref0 = [a.copy() for a in self.w.get_reference()]
        org0 = [a.copy() for a in self.w.get_original()]

        def ref_intact(after):
            rx, ry = self.w.get_reference()
            if not (isinstance(rx, np.ndarray) and isinstance(ry, np.ndarray) and np.array_equal(rx, ref0[0])
                    and np.array_equal(ry, ref0[1])):
                self.fail(f"reference series altered by {after}")
            ox, oy = self.w.get_original()
            if not (np.array_equal(ox, org0[0]) and np.array_equal(oy, org0[1])):
                self.fail(f"original series altered by {after}")

        n = op["n"]
        m = len(self.mx)
        extra = op.get("extra")
        if op.get("extra_first") and extra in ("trend", "noise", "smooth"):
            # a grid-preserving reshaping operation as the very first thing after the domain history: the working
            # series may still share memory with what the constructor was given
            if extra == "trend":
                self.w.trend(lambda t: 0.5 * t + 1.0, normalized=bool(op.get("seed", 0) % 2))
                ref_intact("trend (first reshaping operation)")
            elif extra == "noise":
                np.random.seed(op.get("seed", 0))
                self.w.noise(20.0)
                ref_intact("noise (first reshaping operation)")
            elif m >= 5:
                self.w.smooth(op.get("s", 0.5))
                ref_intact("smooth (first reshaping operation)")
            extra = None
        if len(ref0[0]) != m or len(self.w.get()[0]) != m:
            self.fail(f"before the closing step the working / reference series have {len(self.w.get()[0])} / "
                      f"{len(ref0[0])} samples, the model has {m}")
        self.w.recreate_from_average(n, rfa_class=rfagen.strategy_class(op["strategy"]), **op["kw"])
        ref_intact("recreate_from_average")
        px, py = rfagen.check_pair(self.w.get(), (m - 1) * n + 1, "recreate_from_average().get()")
        px, py = px.copy(), py.copy()
        self.w.integral_match(target_function_integral_method=op["rule"])
        ref_intact("integral_match")
        zx, zy = rfagen.check_pair(self.w.get(), len(px), "integral_match().get()")

        class _Rec:
            def record(self, *a, **k):
                pass
        case = dict(n=n, rule=op["rule"], strategy=op["strategy"], kw=op["kw"])
        try:
            c02.judge(_Rec(), case, ref0[0].astype(float), ref0[1].astype(float), px, py, zx, zy, [])
        except Violation as v:
            self.fail("after the history, recreate+match does not reproduce the transformed averages: " + v.msg,
                      v.detail)
        if extra == "smooth" and len(zx) >= 5:
            self.w.smooth(op.get("s", 0.5))
            ref_intact("smooth")
        elif extra == "trend":
            self.w.trend(lambda t: 0.5 * t + 1.0, normalized=True)
            ref_intact("trend")
        elif extra == "noise":
            np.random.seed(op.get("seed", 0))
            self.w.noise(20.0)
            ref_intact("noise")
        elif extra == "interpolate":
            self.w.interpolate(n=max(4, len(zx) // 2), method="linear")
            ref_intact("interpolate")


def _first_diff(x, y, rx, ry):
    k = min(len(x), len(rx))
    for i in range(k):
        if x[i] != rx[i] or y[i] != ry[i]:
            return f"index {i}: ({x[i]!r}, {y[i]!r}) vs ({rx[i]!r}, {ry[i]!r})"
    return f"index {k} (length)"


def classify(trace):
    kinds = [o["op"] for o in trace["ops"] if o["op"] != "terminal"]
    cls = set("op:" + k for k in kinds)
    for a, b in zip(kinds[:-1], kinds[1:]):
        cls.add(f"pair:{a}>{b}")
    cls.add(f"len={len(kinds)}")
    length_changing = {"append", "repeat", "truncate_value", "truncate_index"}
    nt = len(set(kinds)) >= 2 and any(k in length_changing for k in kinds)
    if any(o["op"] == "terminal" for o in trace["ops"]):
        cls.add("terminal")
    return sorted(cls), nt


def replay_body(ctx, case):
    sess = DomainSession(case["init"])
    for op in case["ops"]:
        if op["op"] == "terminal":
            sess.terminal(dict(op))
        elif sess.admissible(op):
            sess.do(op)
        else:
            ctx.count("inadmissible-op-in-trace-skipped")
    cls, nt = classify(case)
    ctx.record(case, cls[:40], nt)


# ---- state machine ----------------------------------------------------------------------------------------------

XK = ["unit", "fstep", "dyadic", "motif", "hours", "loguni"]


def make_machine(ctx):
    class DomainMachine(RuleBasedStateMachine):
        def __init__(self):
            super().__init__()
            self.sess = None
            self.done = False

        @initialize(s=gens.series(4, 30, xkinds=XK, max_ratio=1e2, allow_int=True),
                    strategy=st.sampled_from(gens.STRATEGY_NAMES), n=st.integers(2, 8),
                    rule_=st.sampled_from(["trapezoid", "rectangle"]),
                    extra=st.sampled_from([None, "smooth", "trend", "noise", "interpolate"]),
                    seed=st.integers(0, 2 ** 20), extra_first=st.booleans(), data=st.data())
        def start(self, s, strategy, n, rule_, extra, seed, extra_first, data):
            kw = data.draw(gens.rfa_params(strategy, n, exp_lo=0.05))
            # the closing recreate+match step is drawn up front and executed when the history ends
            self.term = dict(op="terminal", strategy=strategy, n=n, rule=rule_, kw=kw, extra=extra, seed=seed,
                             extra_first=extra_first)
            init = dict(x=s["x"], y=s["y"], xint=s["xint"])
            if data.draw(st.integers(0, 5)) == 0:
                init = dict(x=[float(i) for i in range(len(s["y"]))], y=s["y"], xint=True, xnone=True)
                ctx.count("constructed-with-x=None")
            self.sess = DomainSession(init)

        def _try(self, op):
            if self.sess.admissible(op):
                self.sess.do(op)
            else:
                ctx.count("inadmissible-op-skipped")

        @rule(periodic=st.booleans())
        def append(self, periodic):
            self._try(dict(op="append", periodic=periodic))

        @rule(which=st.sampled_from(["shift_x", "shift_y"]),
              v=st.one_of(st.integers(-20, 20).map(float), fl(-1e3, 1e3)))
        def shift(self, which, v):
            self._try(dict(op=which, v=v))

        @rule(which=st.sampled_from(["scale_x", "scale_y"]), v=st.one_of(st.sampled_from([2.0, 0.5, 10.0, 3600.0]),
                                                                      fl(1e-2, 1e2)), neg=st.booleans())
        def scale(self, which, v, neg):
            if which == "scale_y" and neg:
                v = -v
            self._try(dict(op=which, v=v))

        @rule(which=st.sampled_from(["normalize_x", "normalize_y"]),
              lo=st.one_of(st.sampled_from([0.0, -1.0, 10.0]), fl(-1e3, 1e3)),
              width=st.one_of(st.sampled_from([1.0, 2.0, 24.0]), fl(1e-2, 1e3)))
        def normalize(self, which, lo, width):
            self._try(dict(op=which, lo=lo, hi=lo + width))

        @rule(n=st.integers(1, 3))
        def repeat(self, n):
            self._try(dict(op="repeat", n=n))

        @rule(data=st.data())
        def truncate_value(self, data):
            x = np.asarray(self.sess.w.get()[0], dtype=float)
            if len(x) != len(self.sess.mx):
                x = self.sess.mx
            L = len(x)
            mode = data.draw(st.sampled_from(["grid", "offgrid", "ratio", "mixed", "outside", "mixed-outside",
                                              "mixed-outside"]))
            i = data.draw(st.integers(0, max(0, L - 4)))
            j = data.draw(st.integers(min(L - 1, i + 3), L - 1))
            if mode == "grid":
                op = dict(op="truncate_value", left=float(x[i]), right=float(x[j]), lr=False, rr=False)
            elif mode == "offgrid":
                tl = data.draw(st.sampled_from([0.25, 0.5, 0.75]))
                tr = data.draw(st.sampled_from([0.25, 0.5, 0.75]))
                left = float(x[i] + tl * (x[i + 1] - x[i]))
                right = float(x[j] - tr * (x[j] - x[j - 1]))
                op = dict(op="truncate_value", left=left, right=right, lr=False, rr=False)
            elif mode == "ratio":
                a = data.draw(st.sampled_from([0.0, 0.1, 0.25, 0.3, -0.2]))
                b = data.draw(st.sampled_from([1.0, 0.9, 0.75, 0.7, 1.3]))
                op = dict(op="truncate_value", left=a, right=b, lr=True, rr=True)
            elif mode == "mixed":
                a = data.draw(st.sampled_from([0.0, 0.1, 0.25]))
                right = float(x[j] - 0.5 * (x[j] - x[j - 1]))
                op = dict(op="truncate_value", left=a, right=right, lr=True, rr=False)
            elif mode == "mixed-outside":
                # one bound a ratio that cuts, the other an absolute value at or beyond the end of the data
                if data.draw(st.booleans()):
                    a = data.draw(st.sampled_from([0.1, 0.25, 0.3, 0.5]))
                    right = float(x[-1] + data.draw(st.sampled_from([0.0, 1.0, 1e3])))
                    op = dict(op="truncate_value", left=a, right=right, lr=True, rr=False)
                else:
                    b = data.draw(st.sampled_from([0.9, 0.75, 0.7, 0.5]))
                    left = float(x[0] - data.draw(st.sampled_from([0.0, 1.0, 1e3])))
                    op = dict(op="truncate_value", left=left, right=b, lr=False, rr=True)
                ctx.count("truncate:ratio+outside-absolute")
            else:
                op = dict(op="truncate_value", left=float(x[0] - 1.0), right=float(x[j]), lr=False, rr=False)
            self._try(op)

        @rule(data=st.data())
        def truncate_index(self, data):
            L = len(self.sess.mx)
            start = data.draw(st.integers(0, max(0, L - 4)))
            stop = data.draw(st.one_of(st.none(), st.integers(min(L, start + 4), L)))
            self._try(dict(op="truncate_index", start=start, stop=stop))

        def teardown(self):
            if self.sess is not None and not self.sess.failed:
                self.sess.terminal(self.term)
                tr = self.sess.trace()
                cls, nt = classify(tr)
                ctx.record(tr, cls[:40], nt)

    return DomainMachine


# ---- exhaustive alphabet -----------------------------------------------------------------------------------------

LETTERS = [
    dict(op="append", periodic=False), dict(op="append", periodic=True),
    dict(op="shift_x", v=2.5), dict(op="shift_x", v=-10.0), dict(op="shift_y", v=1.5), dict(op="shift_y", v=-3.0),
    dict(op="scale_x", v=2.0), dict(op="scale_x", v=0.25), dict(op="scale_y", v=3.0), dict(op="scale_y", v=-0.5),
    dict(op="normalize_x", lo=0.0, hi=1.0), dict(op="normalize_x", lo=-2.0, hi=5.0),
    dict(op="normalize_y", lo=0.0, hi=1.0), dict(op="normalize_y", lo=10.0, hi=12.0),
    dict(op="repeat", n=2), dict(op="repeat", n=3),
    dict(op="truncate_value", left=0.2, right=0.8, lr=True, rr=True),
    dict(op="truncate_rel", i=1, j=-2, tl=0.5, tr=0.5),
    dict(op="truncate_index", start=1, stop=None), dict(op="truncate_index_rel", start=0, drop=1),
]
BASES = [
    dict(x=list(range(12)), y=[3.0, 1.0, 4.0, 1.0, 5.0, 9.0, 2.0, 6.0, 5.0, 3.0, 5.0, 8.0], xint=True, xnone=True),
    dict(x=[0.5, 1.0, 2.5, 3.0, 3.25, 5.0, 8.0, 8.5, 10.0], y=[0.0, 2.0, 2.0, -1.0, 4.0, 4.0, 4.0, 0.5, 1.0], xint=False),
    dict(x=[float(h) for h in range(24)],
         y=[2.1, 1.6, 1.3, 1.1, 1.0, 1.2, 1.9, 2.8, 3.5, 3.9, 4.2, 4.4, 4.6, 4.5, 4.4, 4.5, 4.8, 5.2, 5.6, 5.9, 5.7, 4.9,
            3.8, 2.9], xint=False),
]
TERMINALS = [("ExpAdaptiveRFA", 4, "trapezoid"), ("LinearFixedRFA", 3, "rectangle"), ("CubicSplineRFA", 2, "trapezoid"),
             ("LinearAdaptiveRFA", 5, "rectangle"), ("ExpFixedRFA", 6, "trapezoid"), ("PiecewiseConstantRFA", 2, "trapezoid")]


def alphabet_cases(ctx, shard, nshards):
    maxlen = ctx.pick(2, 4)
    idx = 0
    for b in range(len(BASES)):
        for L in range(maxlen + 1):
            for seq in itertools.product(range(len(LETTERS)), repeat=L):
                if idx % nshards == shard:
                    yield dict(base=b, seq=list(seq), terminal=idx % len(TERMINALS))
                idx += 1


def _resolve(letter, sess):
    x = sess.mx
    if letter["op"] == "truncate_rel":
        i, j = letter["i"], len(x) + letter["j"]
        return dict(op="truncate_value", left=float(x[i] + letter["tl"] * (x[i + 1] - x[i])),
                    right=float(x[j] - letter["tr"] * (x[j] - x[j - 1])), lr=False, rr=False)
    if letter["op"] == "truncate_index_rel":
        return dict(op="truncate_index", start=letter["start"], stop=len(x) - letter["drop"])
    return dict(letter)


def alphabet_body(ctx, case):
    sess = DomainSession(BASES[case["base"]])
    skipped = 0
    for li in case["seq"]:
        op = _resolve(LETTERS[li], sess)
        if sess.admissible(op):
            sess.do(op)
        else:
            skipped += 1
    s, n, r = TERMINALS[case["terminal"]]
    sess.terminal(dict(op="terminal", strategy=s, n=n, rule=r, kw={}, extra=[None, "trend", "noise"][len(case["seq"]) % 3],
                       seed=7, extra_first=sum(case["seq"]) % 2 == 0))
    if skipped:
        ctx.count("letters-inadmissible-in-state", skipped)
    cls, nt = classify(sess.trace())
    ctx.record(case, [c for c in cls if not c.startswith("pair:")] + [f"base{case['base']}"], nt)


# ---- commutation of shift / scale with the pipeline ---------------------------------------------------------------

@st.composite
def commute_case(draw, ctx):
    case = draw(rfagen.rfa_case(ctx, m_lo=3, m_hi=ctx.pick(12, 30), n_hi=ctx.pick(10, 24), max_ratio=1e2))
    adaptive = case["strategy"] in gens.ADAPTIVE
    if adaptive:
        ints = draw(st.lists(st.integers(-20, 20), min_size=len(case["y"]), max_size=len(case["y"])))
        case["y"] = [float(v) for v in ints]
    which = draw(st.sampled_from(["shift_x", "shift_y", "scale_x", "scale_y"]))
    if which.startswith("shift"):
        v = float(draw(st.integers(-30, 30))) if adaptive else draw(fl(-1e2, 1e2))
    else:
        v = (draw(st.sampled_from([2.0, 0.5, 4.0, 0.25, 2.0 ** -40, 2.0 ** -30, 2.0 ** 30])) if adaptive
             else draw(st.one_of(fl(0.05, 20.0), st.sampled_from([1e-9, 1e9]))))
        if which == "scale_y" and draw(st.booleans()):
            v = -v
    case["map"] = dict(op=which, v=v)
    case["rule"] = draw(st.sampled_from(["trapezoid", "rectangle"]))
    case["xint"] = False
    case["as_list"] = False
    return case


def commute_body(ctx, case):
    x, y = rfagen.inputs(case)
    cls = rfagen.strategy_class(case["strategy"])

    def pipeline(w):
        w.recreate_from_average(case["n"], rfa_class=cls, **case["kw"])
        w.integral_match(target_function_integral_method=case["rule"])
        return w

    w1 = Weaver(np.array(x, dtype=float), np.array(y, dtype=float))
    wo.apply_op(w1, case["map"])
    pipeline(w1)
    w2 = pipeline(Weaver(np.array(x, dtype=float), np.array(y, dtype=float)))
    wo.apply_op(w2, case["map"])
    length = (len(case["x"]) - 1) * case["n"] + 1
    x1, y1 = rfagen.check_pair(w1.get(), length, "map then pipeline")
    x2, y2 = rfagen.check_pair(w2.get(), length, "pipeline then map")
    r1, r2 = w1.get_reference(), w2.get_reference()
    if not (np.array_equal(r1[0], r2[0]) and np.array_equal(r1[1], r2[1])):
        raise Violation(f"reference differs depending on whether {case['map']} is applied before or after the pipeline")
    sub = min(b - a for a, b in zip(case["x"][:-1], case["x"][1:])) / case["n"]
    cond = max(abs(v) for v in x1) / (float(np.min(np.diff(x1))) + 1e-300) + max(abs(v) for v in case["x"]) / sub
    rel = (1e-6 if case["strategy"] == "CubicSplineRFA" else 1e-9) + 4096 * 2.0 ** -52 * cond
    xs = float(np.max(np.abs(x1))) + 1e-300
    if float(np.max(np.abs(x1 - x2))) > 1e-12 * xs:
        raise Violation("abscissae differ between the two orders")
    ys = float(np.max(np.abs(y1)) + np.max(np.abs(y2))) + 1e-300
    dev = float(np.max(np.abs(y1 - y2)))
    if dev > rel * ys:
        i = int(np.argmax(np.abs(y1 - y2)))
        raise Violation(f"{case['strategy']}: {case['map']} before vs after recreate+match differ at sample {i}: "
                        f"{y1[i]!r} vs {y2[i]!r} (tol {rel * ys:.3g})", detail=dict(kw=case["kw"], n=case["n"]))
    ctx.record(case, rfagen.classes(case) + ["map:" + case["map"]["op"]], len(set(case["y"])) > 1)


SUBCHECKS = [
    Sub("machine", "machine", replay_body, machine=make_machine, quick=1200, thorough=24000, steps=(10, 10),
        clause="after every domain operation working == reference == transformed original; original intact; "
               "reshaping never alters the reference; recreate+match reproduces the transformed averages"),
    Sub("alphabet", "enum", alphabet_body, cases=alphabet_cases, shards=16, exhaustive=True,
        clause="same, all histories of length <= 2 (quick) / <= 4 (thorough) over 20 letters x 3 base series"),
    Sub("commute", "hyp", commute_body, strategy=commute_case, quick=500, thorough=12000,
        clause="shifting or scaling commutes with the recreate+match pipeline"),
]
