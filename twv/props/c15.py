"""C15 - noise is purely additive and obeys the signal-to-noise definition."""
import copy
import hashlib
import math

import numpy as np
from hypothesis import strategies as st

from twv.runner import Sub, Violation
from twv.gens import fl, xs, ys

import traffic_weaver.process as process
from traffic_weaver import Weaver

PROPERTY = "C15"
LEVEL = "exploration"
RULE = ("Hypothesis builds signals of 1..60 (thorough ..200) samples from the seven shared value kinds (constant, "
        "integer, dyadic, smooth, ties, sign-changing, 1e6-offset) as float64 ndarray / list / int64 array; a noise "
        "request = scalar or per-sample snr (list or ndarray; float or int) in dB [-10, 60] or linear [0.1, 1e6] with "
        "snr_in_db True / False / omitted (documented default: dB), or no snr and an explicit std (also snr together "
        "with an ignored std); a drawn 32-bit seed for NumPy's global RNG. spy: numpy.random.normal replaced by a "
        "forwarding recorder; repro/weaver: the same call repeated under the same seed and compared with a draw made "
        "by the harness under that seed with the oracle's scale. empirical (enumerated, not drawn): 3 (quick) / 24 "
        "(thorough) series of 2*10^5 samples whose RNG seed, signal and snr derive by SHA-256 from VERIF_SEED and the "
        "index. Non-trivial = signal with mean(y^2) != mean(y)^2 and mean(y^2) != 1 (the unit-test fixture is the "
        "constant 1); distinct = distinct full input.")
ASSUMPTIONS = [
    "snr in [-10, 60] dB resp. [0.1, 1e6] linear, std in [1e-3, 1e3]; signal magnitudes <= ~1e7",
    "scale reaching numpy.random.normal compared with sqrt(fsum(y^2)/n / SNR) to 1e-12 relative (observed <= 1e-15)",
    "additivity: result_i compared with y_i + draw_i to 1e-12 * (|y_i| + |draw_i| + scale_i)",
    "noise is expected to come from exactly one call of numpy.random.normal on NumPy's global RNG (the documented "
    "mechanism, DESIGN C15 O(i)); an implementation drawing differently would be reported by the spy sub-check",
    "snr_in_db omitted is treated as decibel input (documented default of the signature)",
    "empirical: N = 2*10^5, tolerance 0.1 dB (about 7.3 sigma of the variance estimator, 0.0137 dB) and "
    "|mean| <= 5 sigma/sqrt(N); per-sample snr is checked on the whitened noise noise_i*sqrt(SNR_i); the outcome "
    "is deterministic for a given VERIF_SEED",
]
TECHNIQUE = ("Hypothesis-generated signals and noise requests with a forwarding spy on numpy.random.normal "
             "(loc/scale/size vs closed form), seeded replay against an independent draw, and a seeded statistical "
             "check of the empirical SNR on 2*10^5-sample series")
LEVEL_TEXT = ("Randomized exploration: the stochastic part is made decidable by (i) observing the exact scale that "
              "reaches the generator, (ii) fixing NumPy's global seed and comparing with an independent draw, so "
              "every sample is checked exactly, and (iii) a fixed-seed statistical test with a 7-sigma band for the "
              "end-to-end SNR. The fixture's degenerate signal (constant 1) is a rare class here, not the only one.")
LEVEL_NOTE = ("trusts numpy.random.normal itself, the 20-line scale oracle in this module and the stated tolerances; "
              "the statistical clause is a fixed-seed test (deterministic per VERIF_SEED), not a proof about the "
              "distribution")

RTOL = 1e-12


# ---- oracle --------------------------------------------------------------------------------------------------------

def scale_oracle(y, req):
    """Standard deviation per sample, from the statement: sqrt(mean(y^2)/SNR), SNR = 10^(snr/10) for decibel
    input or snr itself for linear input (per sample when snr is a sequence), or std when no snr is given."""
    n = len(y)
    if req["snr"] is None:
        return [float(req["std"])] * n
    power = math.fsum(float(v) * float(v) for v in y) / n
    snr = req["snr"] if isinstance(req["snr"], list) else [req["snr"]] * n
    db = req["db"] is not False           # True or omitted (None) -> decibel
    out = []
    for s in snr:
        lin = 10.0 ** (s / 10.0) if db else float(s)
        out.append(math.sqrt(power / lin))
    return out


def is_nontrivial(y):
    n = len(y)
    p = math.fsum(float(v) * float(v) for v in y) / n
    m = math.fsum(float(v) for v in y) / n
    return any(v != y[0] for v in y) and p != 1.0 and abs(p - m * m) > 1e-12 * p


# ---- generators -------------------------------------------------------------------------------------------------------

_db_val = st.one_of(fl(-10.0, 60.0), st.sampled_from([-10, 0, 3, 10, 20, 40, 60]), st.sampled_from([0.0, 10.0, 30.0]))
_lin_val = st.one_of(fl(-1.0, 6.0).map(lambda e: 10.0 ** e), st.sampled_from([1, 2, 10, 100, 1000000]),
                     st.sampled_from([0.1, 0.5, 1.0, 4.0]))


@st.composite
def noise_request(draw, n):
    mode = draw(st.sampled_from(["scalar", "per_sample", "scalar", "per_sample", "std"]))
    if mode == "std":
        std = draw(st.one_of(st.sampled_from([0.5, 2.0, 3]), fl(-3.0, 3.0).map(lambda e: 10.0 ** e)))
        return dict(mode=mode, snr=None, db=draw(st.sampled_from([None, None, True, False])), std=std,
                    snr_container="none")
    db = draw(st.sampled_from([True, False, None, False]))
    val = _lin_val if db is False else _db_val
    if mode == "scalar":
        snr, cont = draw(val), "scalar"
    else:
        snr = draw(st.lists(val, min_size=n, max_size=n))
        cont = draw(st.sampled_from(["list", "ndarray"]))
    std = draw(st.sampled_from([None, None, None, 7.0]))   # a std given together with snr must be ignored
    return dict(mode=mode, snr=snr, db=db, std=std, snr_container=cont)


@st.composite
def signal_case(draw, ctx, with_x=False):
    lo = 2 if with_x else 1
    m = draw(st.sampled_from([0, 1, 1, 1, 1, 1, 1, 1]).flatmap(
        lambda big: st.integers(4, ctx.pick(60, 200)) if big else st.integers(lo, 3)))
    yd = draw(ys(m))
    c = dict(y=yd["y"], ykind=yd["kind"], container=draw(st.sampled_from(["ndarray", "ndarray", "list", "int"])))
    if with_x:
        xd = draw(xs(m))
        c["x"], c["xkind"] = xd["x"], xd["kind"]
        # optionally a linear trend a*t + b before the noise, so that working and reference ordinates differ
        c["pre"] = dict(a=draw(fl(-2.0, 2.0)), b=draw(fl(-5.0, 5.0))) if draw(st.sampled_from([0, 1, 0])) else None
    c["req"] = draw(noise_request(m))
    c["seed"] = draw(st.integers(0, 2 ** 32 - 1))
    return c


def _intlike(vals):
    return all(float(v).is_integer() and abs(v) < 2 ** 40 for v in vals)


def build(vals, container):
    if container == "list":
        return [int(v) if isinstance(v, int) else float(v) for v in vals]
    if container == "int" and _intlike(vals):
        return np.array([int(v) for v in vals], dtype=np.int64)
    return np.array([float(v) for v in vals], dtype=np.float64)


def same_input(now, kept):
    if type(now) is not type(kept):
        return False
    if isinstance(kept, np.ndarray):
        return now.dtype == kept.dtype and now.shape == kept.shape and now.tobytes() == kept.tobytes()
    return now == kept


def call_args(req):
    """(snr argument, keyword arguments) for noise_gauss / Weaver.noise."""
    snr = req["snr"]
    if isinstance(snr, list):
        snr = list(snr) if req["snr_container"] == "list" else np.array(snr)
    kw = {}
    if req["db"] is not None:
        kw["snr_in_db"] = req["db"]
    if req["std"] is not None:
        kw["std"] = req["std"]
    return snr, kw


def classes(case, yin):
    req = case["req"]
    y = case["y"]
    cls = {"y:" + case["ykind"], "in:" + case["container"], "mode:" + req["mode"],
           "scale:" + ("std" if req["snr"] is None else "linear" if req["db"] is False else
                       "dB" if req["db"] else "dB-default")}
    if isinstance(yin, np.ndarray) and np.issubdtype(yin.dtype, np.integer):
        cls.add("y-int-dtype")
    if req["snr"] is not None and req["std"] is not None:
        cls.add("snr+ignored-std")
    if req["mode"] == "per_sample":
        cls.add("snr:" + req["snr_container"])
        if len(set(req["snr"])) > 1:
            cls.add("per-sample-varying")
    if req["mode"] == "scalar":
        cls.add("snr:" + type(req["snr"]).__name__)
    if any(v < 0 for v in y) and any(v > 0 for v in y):
        cls.add("sign-changing")
    if all(v == y[0] for v in y):
        cls.add("constant-signal")
        if y[0] in (1.0, -1.0):
            cls.add("fixture-like(power=1)")
    return cls


def result_array(r, n, what):
    if not isinstance(r, np.ndarray):
        raise Violation(f"{what} is {type(r).__name__}, not ndarray")
    if r.shape != (n,):
        raise Violation(f"{what} has shape {r.shape}, expected ({n},): length changed")
    if not np.issubdtype(r.dtype, np.floating):
        raise Violation(f"{what} has dtype {r.dtype}")
    if not np.all(np.isfinite(r)):
        raise Violation(f"{what} contains non-finite values")
    return r


# ---- spy on numpy.random.normal -----------------------------------------------------------------------------------

def with_spy(fn):
    """Run fn() while numpy.random.normal is replaced by a recorder that forwards to the real function.
    Returns (result of fn, list of (loc, scale, size, returned array))."""
    real = np.random.normal
    calls = []

    def recorder(*args, **kwargs):
        out = real(*args, **kwargs)
        bound = dict(loc=0.0, scale=1.0, size=None)
        bound.update(zip(("loc", "scale", "size"), args))
        bound.update(kwargs)
        calls.append((bound["loc"], bound["scale"], bound["size"], out))
        return out

    np.random.normal = recorder
    try:
        res = fn()
    finally:
        np.random.normal = real
    return res, calls


def check_spy(calls, y, req, what):
    """loc == 0, drawn shape == signal shape, scale == oracle (elementwise, broadcast).  Returns the draw."""
    n = len(y)
    if len(calls) != 1:
        raise Violation(f"{what}: numpy.random.normal called {len(calls)} times, expected exactly once")
    loc, scale, size, out = calls[0]
    if not np.all(np.asarray(loc) == 0):
        raise Violation(f"{what}: noise drawn with loc={np.asarray(loc).tolist()!r}, not 0")
    if size is not None and tuple(np.atleast_1d(size).tolist()) != (n,):
        raise Violation(f"{what}: noise drawn with size={size!r}, signal shape is ({n},)")
    if np.shape(out) != (n,):
        raise Violation(f"{what}: drawn noise has shape {np.shape(out)}, signal shape is ({n},)")
    sc = np.asarray(scale, dtype=float)
    if sc.shape not in ((), (n,)):
        raise Violation(f"{what}: scale has shape {sc.shape}")
    sc = np.broadcast_to(sc, (n,))
    want = scale_oracle(y, req)
    worst = 0.0
    for i in range(n):
        if not abs(float(sc[i]) - want[i]) <= RTOL * want[i]:
            raise Violation(f"{what}: scale for sample {i} is {float(sc[i])!r}, expected {want[i]!r}",
                            detail=dict(mean_y2=math.fsum(float(v) ** 2 for v in y) / n))
        if want[i] > 0:
            worst = max(worst, abs(float(sc[i]) - want[i]) / want[i])
    return np.asarray(out, dtype=float), want, worst


def check_additive(r, y, draw, scale, what):
    for i in range(len(y)):
        want = float(y[i]) + float(draw[i])
        tol = RTOL * (abs(float(y[i])) + abs(float(draw[i])) + scale[i])
        if not abs(float(r[i]) - want) <= tol:
            raise Violation(f"{what}: sample {i} is {float(r[i])!r}, expected y + noise = {float(y[i])!r} + "
                            f"{float(draw[i])!r} = {want!r}")


def harness_draw(seed, scale, n):
    """The Gaussian term the statement prescribes, drawn by the harness itself under the same global seed."""
    np.random.seed(seed)
    return np.random.normal(0.0, np.array(scale, dtype=float), n)


# ---- 1. spy: the scale reaching the generator, additivity ---------------------------------------------------------------

def spy_body(ctx, case):
    y, req = case["y"], case["req"]
    n = len(y)
    yin = build(y, case["container"])
    yk = copy.deepcopy(yin)
    snr, kw = call_args(req)
    np.random.seed(case["seed"])
    if req["snr"] is None and case["seed"] % 2:
        how = "snr-omitted"
        r, calls = with_spy(lambda: process.noise_gauss(yin, **kw))
    elif case["seed"] % 3:
        how = "snr-positional"
        r, calls = with_spy(lambda: process.noise_gauss(yin, snr, **kw))
    else:
        how = "snr-keyword"
        r, calls = with_spy(lambda: process.noise_gauss(yin, snr=snr, **kw))
    r = result_array(r, n, "noise_gauss result")
    draw, scale, worst = check_spy(calls, y, req, "noise_gauss")
    check_additive(r, y, draw, scale, "noise_gauss")
    if not same_input(yin, yk):
        raise Violation("noise_gauss modified its input")
    if worst > 1e-14:
        ctx.count("scale-dev>1e-14")
    ctx.record(case, classes(case, yin) | {how}, nontrivial=is_nontrivial(y))


# ---- 2. reproducibility and the Gaussian term under a fixed seed (process level) -----------------------------------------

def repro_body(ctx, case):
    y, req, seed = case["y"], case["req"], case["seed"]
    n = len(y)
    yin = build(y, case["container"])
    yk = copy.deepcopy(yin)
    snr, kw = call_args(req)
    np.random.seed(seed)
    r1 = result_array(process.noise_gauss(yin, snr, **kw), n, "noise_gauss result")
    np.random.seed(seed)
    r2 = result_array(process.noise_gauss(build(y, case["container"]), call_args(req)[0], **kw), n,
                      "noise_gauss result (2nd run)")
    if r1.tobytes() != r2.tobytes():
        bad = next(i for i in range(n) if r1[i] != r2[i])
        raise Violation(f"two runs under numpy seed {seed} differ at sample {bad}: {float(r1[bad])!r} vs "
                        f"{float(r2[bad])!r}")
    scale = scale_oracle(y, req)
    draw = harness_draw(seed, scale, n)
    check_additive(r1, y, draw, scale, f"noise_gauss under seed {seed} vs normal(0, scale_oracle)")
    if not same_input(yin, yk):
        raise Violation("noise_gauss modified its input")
    ctx.record(case, classes(case, yin), nontrivial=is_nontrivial(y))


# ---- 3. Weaver.noise ----------------------------------------------------------------------------------------------------------

def weaver_pair(res, n, what):
    if not (isinstance(res, tuple) and len(res) == 2):
        raise Violation(f"{what} did not return a pair")
    for a in res:
        if not isinstance(a, np.ndarray) or a.shape != (n,):
            raise Violation(f"{what}: component is {type(a).__name__} of shape {getattr(a, 'shape', None)}, expected "
                            f"ndarray ({n},): length changed")
    return res


def weaver_body(ctx, case):
    x, y, req, seed = case["x"], case["y"], case["req"], case["seed"]
    n = len(y)
    xin, yin = build(x, case["container"]), build(y, case["container"])
    xk, yk = copy.deepcopy(xin), copy.deepcopy(yin)
    snr, kw = call_args(req)
    w = Weaver(xin, yin)
    pre = case.get("pre")
    if pre is not None:
        # the signal is then whatever the working series holds before the noise (observed, not modelled: C14)
        w.trend(lambda t: pre["a"] * t + pre["b"])
        y = result_array(weaver_pair(w.get(), n, "Weaver.get")[1], n, "y after trend").tolist()
    np.random.seed(seed)
    _, calls = with_spy(lambda: w.noise(snr, **kw))
    gx, gy = weaver_pair(w.get(), n, "Weaver.get")
    gy = result_array(gy, n, "y after Weaver.noise")
    if len(w) != n:
        raise Violation(f"len(Weaver) is {len(w)} after noise, was {n}")
    x0, y0 = np.asarray(xk), np.asarray(yk)
    if not np.array_equal(gx, x0):
        raise Violation("Weaver.noise changed x")
    draw, scale, _ = check_spy(calls, y, req, "Weaver.noise")
    check_additive(gy, y, draw, scale, "Weaver.noise")
    check_additive(gy, y, harness_draw(seed, scale, n), scale,
                   f"Weaver.noise under seed {seed} vs normal(0, scale_oracle)")
    for getter in ("get_reference", "get_original"):
        hx, hy = weaver_pair(getattr(w, getter)(), n, f"Weaver.{getter}")
        if not (np.array_equal(hx, x0) and np.array_equal(hy, y0)):
            raise Violation(f"Weaver.noise changed {getter}()")
    w2 = Weaver(build(x, case["container"]), build(case["y"], case["container"]))
    if pre is not None:
        w2.trend(lambda t: pre["a"] * t + pre["b"])
    np.random.seed(seed)
    w2.noise(call_args(req)[0], **kw)
    g2 = weaver_pair(w2.get(), n, "Weaver.get (2nd run)")
    if np.asarray(g2[1]).tobytes() != gy.tobytes():
        raise Violation(f"two Weaver.noise runs under numpy seed {seed} differ")
    if not (same_input(xin, xk) and same_input(yin, yk)):
        raise Violation("Weaver.noise modified the caller's arrays")
    cls = classes(case, yin) | {"x:" + case["xkind"], "after-trend" if pre is not None else "fresh"}
    ctx.record(case, cls, nontrivial=is_nontrivial(y))


# ---- 4. empirical SNR of long series ---------------------------------------------------------------------------------------

N_LONG = 200000
_SIGNALS = ["sine+offset", "sine", "saw", "ints", "two-tone"]
_REQUESTS = ["dB", "linear", "per-sample-dB", "dB", "std", "per-sample-linear", "linear", "dB"]


def _u(h, k):
    """k-th deterministic number in [0, 1) from a digest."""
    return int.from_bytes(h[4 + 4 * k:8 + 4 * k], "big") / 2.0 ** 32


def empirical_cases(ctx, shard, nshards):
    count = ctx.pick(3, 24)
    for i in range(count):
        if i % nshards != shard:
            continue
        h = hashlib.sha256(f"{ctx.seed}/C15/empirical/{i}".encode()).digest()
        seed = int.from_bytes(h[:4], "big")
        skind = _SIGNALS[i % len(_SIGNALS)]
        sig = dict(kind=skind, A=round(0.5 + 20.0 * _u(h, 0), 3), w=round(0.01 + 0.5 * _u(h, 1), 4),
                   c=round(-10.0 + 30.0 * _u(h, 2), 3))
        rkind = _REQUESTS[i % len(_REQUESTS)]
        db_val = round(-10.0 + 70.0 * _u(h, 3), 2)
        if rkind == "dB":
            req = dict(kind=rkind, db=True if i % 2 else None, snr=db_val)
        elif rkind == "linear":
            req = dict(kind=rkind, db=False, snr=round(10.0 ** (db_val / 10.0), 6))
        elif rkind == "per-sample-dB":
            req = dict(kind=rkind, db=True, lo=round(-10.0 + 30.0 * _u(h, 3), 2), hi=round(25.0 + 35.0 * _u(h, 4), 2),
                       period=int(3 + 500 * _u(h, 5)))
        elif rkind == "per-sample-linear":
            req = dict(kind=rkind, db=False, lo=round(0.1 + 5.0 * _u(h, 3), 3), hi=round(100.0 + 1e4 * _u(h, 4), 1),
                       period=int(3 + 500 * _u(h, 5)))
        else:
            req = dict(kind=rkind, std=round(10.0 ** (-2.0 + 4.0 * _u(h, 3)), 5))
        yield dict(index=i, seed=seed, n=N_LONG, signal=sig, req=req, level="weaver" if i % 3 == 1 else "process")


def build_signal(sig, n):
    i = np.arange(n, dtype=float)
    A, w, c = sig["A"], sig["w"], sig["c"]
    kind = sig["kind"]
    if kind == "sine+offset":
        return c + A * np.sin(w * i)
    if kind == "sine":
        return A * np.sin(w * i + 0.3)
    if kind == "saw":
        return c + A * ((i * w) % 1.0)
    if kind == "ints":
        return (np.arange(n) % 7 - 2) * (1 + int(A))             # int64, sign-changing
    if kind == "two-tone":
        return A * np.sin(w * i) - 0.5 * A * np.cos(3.1 * w * i) + 0.1 * c
    raise RuntimeError(kind)


def build_snr(req, n):
    """(argument handed to the code, per-sample linear SNR or None)"""
    kind = req["kind"]
    if kind == "dB":
        return req["snr"], np.full(n, 10.0 ** (req["snr"] / 10.0))
    if kind == "linear":
        return req["snr"], np.full(n, float(req["snr"]))
    if kind in ("per-sample-dB", "per-sample-linear"):
        blocks = (np.arange(n) // req["period"]) % 2          # alternating blocks of low / high snr
        vals = np.where(blocks == 0, float(req["lo"]), float(req["hi"]))
        return vals, (10.0 ** (vals / 10.0) if kind == "per-sample-dB" else vals.astype(float))
    return None, None


def empirical_body(ctx, case):
    n, req = case["n"], case["req"]
    y = build_signal(case["signal"], n)
    yk = y.copy()
    snr_arg, snr_lin = build_snr(req, n)
    kw = {}
    if req.get("db") is not None:
        kw["snr_in_db"] = req["db"]
    if req["kind"] == "std":
        kw["std"] = req["std"]
    np.random.seed(case["seed"])
    if case["level"] == "weaver":
        w = Weaver(np.arange(n, dtype=float), y)
        w.noise(snr_arg, **kw)
        gx, r = weaver_pair(w.get(), n, "Weaver.get")
        if not np.array_equal(gx, np.arange(n, dtype=float)):
            raise Violation("Weaver.noise changed x")
    else:
        r = process.noise_gauss(y, snr_arg, **kw)
    r = result_array(r, n, "noised signal")
    if y.tobytes() != yk.tobytes():
        raise Violation("noise modified its input")
    yf = y.astype(float)
    noise = r - yf
    power = float(np.mean(yf * yf))
    if req["kind"] == "std":
        sigma = np.full(n, float(req["std"]))
        requested = None
    else:
        sigma = np.sqrt(power / snr_lin)
        requested = 10.0 * np.log10(snr_lin)
    if req["kind"] in ("dB", "linear"):
        # literally the statement: empirical 10*log10(mean(y^2)/var(noise)) against the requested value
        var = float(np.var(noise))
        if not var > 0:
            raise Violation("noise has zero variance")
        emp = 10.0 * math.log10(power / var)
        dev = emp - float(requested[0])
        msg = f"empirical SNR {emp:.4f} dB, requested {float(requested[0]):.4f} dB"
    else:
        # per-sample snr / explicit std: the same quantity on the whitened noise noise_i / sigma_i (variance 1)
        var = float(np.var(noise / sigma))
        if not var > 0:
            raise Violation("noise has zero variance")
        dev = -10.0 * math.log10(var)
        msg = f"noise variance is {var:.5f} x the requested one ({dev:+.4f} dB)"
    if not abs(dev) <= 0.1:
        raise Violation(f"{msg}: off by more than 0.1 dB over {n} samples (seed {case['seed']})",
                        detail=dict(mean_y2=power, mean_y_squared=float(np.mean(yf)) ** 2))
    zmean = float(np.mean(noise / sigma))
    if not abs(zmean) <= 5.0 / math.sqrt(n):
        raise Violation(f"noise mean is {zmean * math.sqrt(n):+.2f} standard errors from 0 over {n} samples "
                        f"(seed {case['seed']})")
    if abs(dev) > 0.05:
        ctx.count("dev>0.05dB")
    if abs(zmean) > 3.0 / math.sqrt(n):
        ctx.count("mean>3se")
    cls = {"signal:" + case["signal"]["kind"], "request:" + req["kind"], "level:" + case["level"]}
    if req.get("db", 0) is None:
        cls.add("dB-default")
    if float(np.min(yf)) < 0 < float(np.max(yf)):
        cls.add("sign-changing")
    m2 = float(np.mean(yf)) ** 2
    ctx.record(case, cls, nontrivial=abs(power - m2) > 1e-6 * power and abs(power - 1.0) > 1e-6)


SUBCHECKS = [
    Sub("spy", "hyp", spy_body, strategy=lambda ctx: signal_case(ctx), quick=500, thorough=10000,
        clause="the Gaussian term: loc 0, one value per sample, standard deviation sqrt(mean(y^2)/SNR) (dB / linear / "
               "per sample) or std; result = y + that term; input untouched"),
    Sub("repro", "hyp", repro_body, strategy=lambda ctx: signal_case(ctx), quick=500, thorough=10000,
        clause="fixed NumPy seed: two runs bitwise equal, and equal to y + normal(0, scale_oracle) drawn by the harness"),
    Sub("weaver", "hyp", weaver_body, strategy=lambda ctx: signal_case(ctx, with_x=True), quick=500, thorough=10000,
        clause="Weaver.noise: x and length unchanged, same scale / additivity / reproducibility, reference and "
               "original untouched"),
    Sub("empirical", "enum", empirical_body, cases=empirical_cases, shards=8, exhaustive=False,
        clause="empirical SNR of 2*10^5-sample series within 0.1 dB of the request, noise mean within 5 sigma/sqrt(N)"),
]
