"""C15 - noise is purely additive and obeys the signal-to-noise definition."""
import copy
import hashlib
import math

import numpy as np
from hypothesis import strategies as st

from twv.runner import Sub, Violation, canon
from twv.gens import fl, xs, ys

import traffic_weaver.process as process
from traffic_weaver import Weaver

PROPERTY = "C15"
LEVEL = "exploration"
RULE = ("Signals: (a) 1..60 (thorough ..200) samples from the seven shared value kinds (constant, integer, dyadic, "
        "smooth, ties, sign-changing, 1e6-offset) as float64 ndarray / list / int64 array; (b) long signals described "
        "as data (sine+offset, sine, saw, integer pattern, two-tone) whose length is a round threshold "
        "(1000, 1024, 4096, 10000, 16384, 65536, 100000, 131072, 200000, 262144) or its neighbour +-1, a log-uniform "
        "length in [512, 2^19], or (rarely) about 2^20 - about one case in five in `repro`, fewer in `spy`/`weaver`. "
        "Noise request = scalar or per-sample snr (list / ndarray; float / int; long signals: alternating blocks) in "
        "dB [-10, 60] or linear [0.1, 1e6] with snr_in_db True / False / omitted (documented default dB), or no snr "
        "and an explicit std (also snr together with an ignored std); a drawn 32-bit seed for NumPy's global RNG. "
        "spy: while the code runs, numpy.random.normal / standard_normal / randn hand out known non-zero deviates G "
        "(loc + scale*G semantics) and the effective per-sample deviation (out_i - y_i)/G_i is compared with the SNR "
        "definition - wherever the implementation applies the scaling. repro: the call repeated under the same "
        "seed (bitwise equal), then once more with known deviates. weaver: a Weaver that has "
        "already seen 0..3 operations (scale_y with |k| > 1, < 1, negative; shift_y; scale_x; shift_x; trend; "
        "restore_original; normalize_y; an earlier noise), then noise(...) judged with known deviates against copies "
        "of the CURRENT ordinates, and two twin Weavers with the same history and seed (bitwise equal). sequence: "
        "2..5 calls on look-alike signals (same length, first and last sample, one caller array edited in place). "
        "empirical (enumerated): 3 (quick) / 24 (thorough) series of 2*10^5 samples whose seed, signal and snr "
        "derive by SHA-256 from VERIF_SEED and the index; statistics, plus the same seeded-replay checks. "
        "Non-trivial = signal with mean(y^2) != mean(y)^2 and mean(y^2) != 1 (the unit-test fixture is the "
        "constant 1); distinct = distinct full input.")
ASSUMPTIONS = [
    "snr in [-10, 60] dB resp. [0.1, 1e6] linear, std in [1e-3, 1e3]; signal magnitudes <= ~1e10 (after scale_y)",
    "added term compared with sigma_i*G_i, sigma_i = sqrt(fsum(y^2)/n / SNR_i) or std: 1e-9 relative for the deviation "
    "plus 1e-12*(|y_i| + |term_i|) for the rounding of the sum (observed <= 1e-15 relative on the current tree)",
    "HOW the noise is drawn is not asserted: scale passed to the sampler or multiplied afterwards, normal / "
    "standard_normal / randn, one call or one call per sample, container and dtype of the result. If none of the three "
    "global samplers is used (e.g. a Generator) or the number of deviates is not one per sample, the per-sample "
    "comparison is skipped (counters draw-not-observable / draw-not-interpretable) and the verdict rests on the "
    "seeded and statistical clauses; agreement with y + normal(0, sigma) drawn by the harness under the same seed is "
    "only counted (equals-harness-draw), not demanded",
    "whatever the sampler, for sigma_i > 1e-6*|y_i| the result must differ from the signal and the samples must not "
    "all carry the same deviate (probability-one consequences of a per-sample Gaussian term)",
    "the caller's signal array must be left as it was (otherwise the clean signal is gone and the noise of later "
    "calls piles up on earlier ones)",
    "snr_in_db omitted is treated as decibel input (documented default of the signature)",
    "Weaver histories use only operations that are valid in the state they meet (normalize_y only on non-constant "
    "ordinates; trend only on series up to 20000 samples for cost); the signal is whatever get() shows before noise",
    "empirical: N = 2*10^5, tolerance 0.1 dB (about 7.3 sigma of the variance estimator, 0.0137 dB) and "
    "|mean| <= 5 sigma/sqrt(N); per-sample snr is checked on the whitened noise noise_i*sqrt(SNR_i); the outcome "
    "is deterministic for a given VERIF_SEED",
    "the first verdict for a case is kept for the rest of the process, so that a library whose answer depends on "
    "earlier calls yields a violation rather than a 'flaky' harness error",
]
TECHNIQUE = ("Hypothesis-generated signals (short explicit ones and long ones described as data, lengths around round "
             "thresholds), noise requests and Weaver histories; NumPy's global normal samplers replaced by known "
             "deviates so that the effective per-sample deviation can be read off the result and compared with the "
             "closed form, seeded re-runs compared bitwise, and a seeded statistical "
             "check of the empirical SNR on 2*10^5-sample series")
LEVEL_TEXT = ("Randomized exploration: the stochastic part is made decidable by (i) feeding known deviates to the "
              "code, so the size of the added term is checked exactly for every sample independently of where the "
              "implementation scales it, (ii) fixing NumPy's global seed and comparing two runs bitwise - for short "
              "and for long signals and for Weaver objects with a history -, and (iii) a fixed-seed statistical test with a 7-sigma band for the end-to-end SNR. The "
              "fixture's degenerate signal (constant 1) is a rare class here, not the only one.")
LEVEL_NOTE = ("trusts numpy.random.normal itself, the 25-line scale oracle in this module and the stated tolerances; "
              "the statistical clause is a fixed-seed test (deterministic per VERIF_SEED), not a proof about the "
              "distribution; size-dependent behaviour beyond 2^20 samples is not explored")

RTOL = 1e-12

# ---- history-dependent faults: keep the first verdict (see C14) ----------------------------------------------------
_VERDICTS = {}


def sticky(body):
    def wrapped(ctx, case):
        key = None if ctx.replaying else canon(case)
        if key in _VERDICTS:
            raise _VERDICTS[key]     # the very same exception object: same origin for Hypothesis, same message
        try:
            body(ctx, case)
        except Exception as e:       # noqa: B902  Violation, or an exception out of the library (a violation too)
            if key is not None:
                _VERDICTS[key] = e
            raise
    wrapped.__name__ = body.__name__
    return wrapped


# ---- materialising a case ---------------------------------------------------------------------------------------------

def build_signal(sig, n):
    i = np.arange(n, dtype=float)
    A, w, c = sig["A"], sig["w"], sig["c"]
    kind = sig["kind"]
    if kind == "sine+offset":
        return c + A * np.sin(w * i)
    if kind == "sine":
        return A * np.sin(w * i + 0.3)
    if kind == "saw":
        return c + A * ((i * w) % 1.0)
    if kind == "ints":
        return (np.arange(n) % 7 - 2) * (1 + int(A))             # int64, sign-changing
    if kind == "two-tone":
        return A * np.sin(w * i) - 0.5 * A * np.cos(3.1 * w * i) + 0.1 * c
    raise RuntimeError(kind)


def _intlike(vals):
    return all(float(v).is_integer() and abs(v) < 2 ** 40 for v in vals)


def build(vals, container):
    if container == "list":
        return [int(v) if isinstance(v, int) else float(v) for v in vals]
    if container == "int" and _intlike(vals):
        return np.array([int(v) for v in vals], dtype=np.int64)
    return np.array([float(v) for v in vals], dtype=np.float64)


def signal_input(case):
    """The object handed to the code under test (fresh on every call)."""
    if "signal" in case:
        return build_signal(case["signal"], case["n"])
    return build(case["y"], case["container"])


def x_input(case):
    if "xspec" in case:
        return case["xspec"]["x0"] + case["xspec"]["h"] * np.arange(case["n"], dtype=float)
    return build(case["x"], case["container"])


def as_float(a):
    return np.array([float(v) for v in a]) if isinstance(a, list) else np.asarray(a).astype(float)


def snr_values(req, n):
    """None, a Python scalar, or a float ndarray of n per-sample values."""
    snr = req["snr"]
    if isinstance(snr, dict):                                    # long signals: alternating blocks of two levels
        blocks = (np.arange(n) // snr["period"]) % 2
        return np.where(blocks == 0, float(snr["lo"]), float(snr["hi"]))
    if isinstance(snr, list):
        return np.array([float(v) for v in snr])
    return snr


def call_args(req, n):
    """(snr argument, keyword arguments) for noise_gauss / Weaver.noise; fresh objects on every call."""
    snr = req["snr"]
    if isinstance(snr, dict):
        snr = snr_values(req, n)
        if req["snr_container"] == "list":
            snr = snr.tolist()
    elif isinstance(snr, list):
        snr = list(snr) if req["snr_container"] == "list" else np.array(snr)
    kw = {}
    if req["db"] is not None:
        kw["snr_in_db"] = req["db"]
    if req["std"] is not None:
        kw["std"] = req["std"]
    return snr, kw


def same_input(now, kept):
    if type(now) is not type(kept):
        return False
    if isinstance(kept, np.ndarray):
        return now.dtype == kept.dtype and now.shape == kept.shape and now.tobytes() == kept.tobytes()
    return now == kept


# ---- oracle --------------------------------------------------------------------------------------------------------

def mean_square(yf):
    """mean(y^2): exactly rounded sum for short signals, NumPy's pairwise sum (error ~1e-15) for long ones."""
    sq = yf * yf
    return math.fsum(sq.tolist()) / len(yf) if len(yf) <= 4096 else float(np.sum(sq)) / len(yf)


def scale_oracle(yf, req):
    """Standard deviation per sample (float ndarray), from the statement: sqrt(mean(y^2)/SNR), SNR = 10^(snr/10)
    for decibel input or snr itself for linear input (per sample when snr is a sequence), or std without snr."""
    n = len(yf)
    if req["snr"] is None:
        return np.full(n, float(req["std"]))
    power = mean_square(yf)
    snr = snr_values(req, n)
    db = req["db"] is not False           # True or omitted (None) -> decibel
    if n <= 4096:
        per = snr.tolist() if isinstance(snr, np.ndarray) else [snr] * n
        return np.array([math.sqrt(power / (10.0 ** (s / 10.0) if db else float(s))) for s in per])
    s = snr if isinstance(snr, np.ndarray) else np.full(n, float(snr))
    return np.sqrt(power / (np.power(10.0, s / 10.0) if db else s))


def is_nontrivial(yf):
    n = len(yf)
    p = mean_square(yf)
    m = float(np.sum(yf)) / n
    return bool(np.any(yf != yf[0])) and p != 1.0 and abs(p - m * m) > 1e-12 * p


# ---- generators -------------------------------------------------------------------------------------------------------

_db_val = st.one_of(fl(-10.0, 60.0), st.sampled_from([-10, 0, 3, 10, 20, 40, 60]), st.sampled_from([0.0, 10.0, 30.0]))
_lin_val = st.one_of(fl(-1.0, 6.0).map(lambda e: 10.0 ** e), st.sampled_from([1, 2, 10, 100, 1000000]),
                     st.sampled_from([0.1, 0.5, 1.0, 4.0]))
_std_val = st.one_of(st.sampled_from([0.5, 2.0, 3]), fl(-3.0, 3.0).map(lambda e: 10.0 ** e))

_ROUND = [1000, 1024, 4096, 10000, 16384, 65536, 100000, 131072, 200000, 262144]
_long_n = st.sampled_from(["round"] * 10 + ["log"] * 5 + ["round"] * 10 + ["huge"] + ["log"] * 5).flatmap(
    lambda k: st.tuples(st.sampled_from(_ROUND), st.sampled_from([-1, 0, 0, 1])).map(sum) if k == "round" else
    st.integers(9, 18).flatmap(lambda e: st.integers(2 ** e, 2 ** (e + 1))) if k == "log" else
    st.sampled_from([1000000, 2 ** 20, 2 ** 20 + 1]))


@st.composite
def noise_request(draw, n, long=False, std_weight=1):
    mode = draw(st.sampled_from(["scalar", "per_sample", "scalar", "per_sample"] + ["std"] * std_weight))
    if mode == "std":
        return dict(mode=mode, snr=None, db=draw(st.sampled_from([None, None, True, False])), std=draw(_std_val),
                    snr_container="none")
    db = draw(st.sampled_from([True, False, None, False]))
    val = _lin_val if db is False else _db_val
    if mode == "scalar":
        snr, cont = draw(val), "scalar"
    elif long:
        snr = dict(lo=draw(val), hi=draw(val), period=draw(st.integers(1, 5000)))
        cont = draw(st.sampled_from(["list", "ndarray", "ndarray"]))
    else:
        snr = draw(st.lists(val, min_size=n, max_size=n))
        cont = draw(st.sampled_from(["list", "ndarray"]))
    std = draw(st.sampled_from([None, None, None, 7.0]))   # a std given together with snr must be ignored
    return dict(mode=mode, snr=snr, db=db, std=std, snr_container=cont)


@st.composite
def signal_case(draw, ctx, with_x=False, long_in=8, std_weight=1):
    """long_in: one case in `long_in` is a long signal described as data."""
    c = {}
    if draw(st.integers(0, long_in - 1).map(lambda v: v == long_in // 2)):
        n = draw(_long_n)
        c["n"] = n
        c["signal"] = dict(kind=draw(st.sampled_from(["sine+offset", "sine", "saw", "ints", "two-tone"])),
                           A=draw(fl(0.5, 20.0)), w=draw(fl(0.01, 0.5)), c=draw(fl(-10.0, 20.0)))
        c["ykind"], c["container"] = "long:" + c["signal"]["kind"], "ndarray"
        if with_x:
            c["xspec"] = dict(x0=draw(st.sampled_from([0.0, 5.0, -100.0])), h=draw(st.sampled_from([1.0, 0.25, 300.0])))
            c["xkind"] = "long"
        c["req"] = draw(noise_request(n, long=True, std_weight=std_weight))
    else:
        lo = 2 if with_x else 1
        m = draw(st.sampled_from([0, 1, 1, 1, 1, 1, 1, 1]).flatmap(
            lambda big: st.integers(4, ctx.pick(60, 200)) if big else st.integers(lo, 3)))
        yd = draw(ys(m))
        c.update(y=yd["y"], ykind=yd["kind"], container=draw(st.sampled_from(["ndarray", "ndarray", "list", "int"])))
        if with_x:
            xd = draw(xs(m))
            c["x"], c["xkind"] = xd["x"], xd["kind"]
        c["req"] = draw(noise_request(m, std_weight=std_weight))
    c["seed"] = draw(st.integers(0, 2 ** 32 - 1))
    return c


def size_class(n):
    if n < 512:
        return "n<512"
    for r in _ROUND + [1000000, 2 ** 20]:
        if abs(n - r) <= 1:
            return f"n~{r}"
    return "n:2^%d.." % int(math.log2(n))


def classes(case, yin, yf):
    req = case["req"]
    n = len(yf)
    cls = {"y:" + case["ykind"], "in:" + case["container"], "mode:" + req["mode"], size_class(n),
           "scale:" + ("std" if req["snr"] is None else "linear" if req["db"] is False else
                       "dB" if req["db"] else "dB-default")}
    if n >= 512:
        cls.add("long")
    if isinstance(yin, np.ndarray) and np.issubdtype(yin.dtype, np.integer):
        cls.add("y-int-dtype")
    if req["snr"] is not None and req["std"] is not None:
        cls.add("snr+ignored-std")
    if req["mode"] == "per_sample":
        cls.add("snr:" + req["snr_container"])
        s = snr_values(req, n)
        if np.any(s != s[0]):
            cls.add("per-sample-varying")
    if req["mode"] == "scalar":
        cls.add("snr:" + type(req["snr"]).__name__)
    if np.any(yf < 0) and np.any(yf > 0):
        cls.add("sign-changing")
    if np.all(yf == yf[0]):
        cls.add("constant-signal")
        if yf[0] in (1.0, -1.0):
            cls.add("fixture-like(power=1)")
    return cls


def result_array(r, n, what):
    """The noised signal as float64 values.  Only what the statement fixes is demanded: one finite number per
    sample (container type and dtype of the result are the implementation's business)."""
    try:
        arr = np.asarray(r)
    except Exception:       # noqa: B902
        raise Violation(f"{what} is a {type(r).__name__} that cannot be read as an array") from None
    if arr.shape != (n,):
        raise Violation(f"{what} has shape {arr.shape}, expected ({n},): length changed")
    if not (np.issubdtype(arr.dtype, np.number) and not np.issubdtype(arr.dtype, np.complexfloating)):
        raise Violation(f"{what} has dtype {arr.dtype}")
    arr = arr.astype(float)
    if not np.all(np.isfinite(arr)):
        raise Violation(f"{what} contains non-finite values")
    return arr


# ---- the draw made observable: known deviates instead of random ones --------------------------------------------------
# The statement fixes WHAT is added (sigma_i times a standard normal deviate, per sample), not HOW it is drawn
# (normal(0, sigma), sigma * normal(0, 1), sigma * standard_normal(), randn ...).  While the code under test runs,
# numpy.random.normal / standard_normal / randn hand out known, non-zero deviates G (|G| in [0.5, 1.5), alternating
# sign) with the usual loc + scale * G semantics; the effective per-sample deviation is then read off the result:
# sigma_eff[i] = (out[i] - y[i]) / G[i].

def known_deviates(start, count):
    idx = np.arange(start, start + count, dtype=float)
    return (0.5 + (idx * 0.6180339887498949) % 1.0) * np.where(idx % 2 == 0, 1.0, -1.0)


def with_known_deviates(fn):
    """Run fn() with the three global normal samplers replaced.  Returns (fn's result, list of the deviate arrays
    handed out, in call order)."""
    real = (np.random.normal, np.random.standard_normal, np.random.randn)
    handed = []

    def take(shape):
        shape = tuple(int(v) for v in np.atleast_1d(shape)) if shape is not None else ()
        count = int(np.prod(shape)) if shape else 1
        g = known_deviates(sum(len(h) for h in handed), count)
        handed.append(g)
        return g.reshape(shape) if shape else float(g[0])

    def normal(loc=0.0, scale=1.0, size=None):
        shape = size if size is not None else np.broadcast(np.asarray(loc), np.asarray(scale)).shape
        return loc + scale * take(shape)

    def standard_normal(size=None, *args, **kwargs):
        return take(size)

    def randn(*dims):
        return take(dims)

    np.random.normal, np.random.standard_normal, np.random.randn = normal, standard_normal, randn
    try:
        res = fn()
    finally:
        np.random.normal, np.random.standard_normal, np.random.randn = real
    return res, handed


def first_bad(ok):
    return int(np.nonzero(~ok)[0][0])


def check_effective_std(ctx, handed, out, yf, sigma, what):
    """out - y must be sigma_i * G_i with sigma from the SNR definition (relative 1e-9 for the deviation, 1e-12 of
    |y_i| + |noise_i| for the rounding of the sum).  Not decidable here - and left to the seeded / statistical
    sub-checks - when no patched sampler was used or when the number of deviates is not one per sample."""
    n = len(yf)
    total = sum(len(h) for h in handed)
    if total == 0:
        ctx.count("draw-not-observable")
        return "draw-not-observable"
    if total != n:
        ctx.count("draw-not-interpretable")
        return "draw-not-interpretable"
    g = np.concatenate(handed)
    noise = out - yf
    want = sigma * g
    dev = np.abs(noise - want)
    tol = 1e-9 * np.abs(want) + RTOL * (np.abs(yf) + np.abs(want))
    ok = dev <= tol
    if not np.all(ok):
        i = first_bad(ok)
        raise Violation(f"{what}: sample {i} of {n}: y = {float(yf[i])!r} became {float(out[i])!r} for the standard "
                        f"deviate {float(g[i])!r}, i.e. an effective noise deviation of {float(noise[i] / g[i])!r}; "
                        f"the SNR definition gives {float(sigma[i])!r}",
                        detail=dict(mean_y2=mean_square(yf), n=n))
    if np.any(dev > 0.01 * tol):
        ctx.count("within-2-decades-of-tolerance")
    return "checked"


def check_some_noise(out, yf, sigma, what):
    """Consequences of 'a Gaussian term of deviation sigma_i per sample' that hold with probability 1 whatever the
    sampler: the term is not identically zero and not one value shared by all samples."""
    vis = sigma > 1e-6 * np.abs(yf)             # elsewhere the term may vanish in the rounding of y + noise
    if not np.any(vis):
        return
    z = (out[vis] - yf[vis]) / sigma[vis]
    if np.all(z == 0):
        raise Violation(f"{what}: result equals the signal although the requested noise deviation is "
                        f"{float(sigma[vis][0])!r}: no noise was added")
    if len(z) >= 4 and float(np.max(z) - np.min(z)) <= 1e-9 * float(np.max(np.abs(z))):
        raise Violation(f"{what}: all {len(z)} samples received the same noise deviate {float(z[0])!r}")


def harness_draw_matches(ctx, out, yf, sigma, seed):
    """Informative only: does the result equal y + normal(0, sigma) drawn by the harness under the same seed?
    (True for the current implementation; the statement does not prescribe the order of the draws.)"""
    np.random.seed(seed)
    d = np.random.normal(0.0, 1.0, len(yf)) * sigma
    same = bool(np.all(np.abs(out - (yf + d)) <= 1e-9 * np.abs(d) + RTOL * (np.abs(yf) + np.abs(d))))
    ctx.count("equals-harness-draw" if same else "differs-from-harness-draw")
    return same


def check_same_bits(r1, r2, seed, what):
    if r1.tobytes() != r2.tobytes():
        bad = first_bad(r1 == r2)
        raise Violation(f"{what}: two runs under numpy seed {seed} differ at sample {bad} of {len(r1)}: "
                        f"{float(r1[bad])!r} vs {float(r2[bad])!r}")


# ---- 1. spy: the effective deviation of the added term, additivity --------------------------------------------------------

def spy_body(ctx, case):
    req = case["req"]
    yin = signal_input(case)
    yk = copy.deepcopy(yin)
    yf = as_float(yk)
    n = len(yf)
    snr, kw = call_args(req, n)
    np.random.seed(case["seed"])
    if req["snr"] is None and case["seed"] % 2:
        how = "snr-omitted"
        r, handed = with_known_deviates(lambda: process.noise_gauss(yin, **kw))
    elif case["seed"] % 3:
        how = "snr-positional"
        r, handed = with_known_deviates(lambda: process.noise_gauss(yin, snr, **kw))
    else:
        how = "snr-keyword"
        r, handed = with_known_deviates(lambda: process.noise_gauss(yin, snr=snr, **kw))
    r = result_array(r, n, "noise_gauss result")
    sigma = scale_oracle(yf, req)
    status = check_effective_std(ctx, handed, r, yf, sigma, "noise_gauss")
    check_some_noise(r, yf, sigma, "noise_gauss")
    if not same_input(yin, yk):
        raise Violation("noise_gauss modified its input (the clean signal is lost)")
    ctx.record(case, classes(case, yin, yf) | {how, status}, nontrivial=is_nontrivial(yf))


# ---- 2. reproducibility under a fixed seed (process level) -------------------------------------------------------------------

def repro_body(ctx, case):
    req, seed = case["req"], case["seed"]
    yin = signal_input(case)
    yk = copy.deepcopy(yin)
    yf = as_float(yk)
    n = len(yf)
    snr, kw = call_args(req, n)
    np.random.seed(seed)
    r1 = process.noise_gauss(yin, snr, **kw)
    if not same_input(yin, yk):
        raise Violation("noise_gauss modified its input (the clean signal is lost)")
    r1 = result_array(r1, n, "noise_gauss result")
    np.random.seed(seed)
    r2 = result_array(process.noise_gauss(signal_input(case), call_args(req, n)[0], **kw), n,
                      "noise_gauss result (2nd run)")
    check_same_bits(r1, r2, seed, "noise_gauss")
    sigma = scale_oracle(yf, req)
    check_some_noise(r1, yf, sigma, f"noise_gauss under seed {seed}")
    harness_draw_matches(ctx, r1, yf, sigma, seed)
    # the same call once more with known deviates: the size of the added term, sample by sample
    r3, handed = with_known_deviates(lambda: process.noise_gauss(signal_input(case), call_args(req, n)[0], **kw))
    status = check_effective_std(ctx, handed, result_array(r3, n, "noise_gauss result"), yf, sigma, "noise_gauss")
    ctx.record(case, classes(case, yin, yf) | {status}, nontrivial=is_nontrivial(yf))


# ---- 3. Weaver.noise on a Weaver with a history ---------------------------------------------------------------------------

_scale_y_val = st.one_of(st.sampled_from([2, 0.5, -1, -3.0, 10, 0.1, 1, 4.0]), fl(1.0, 1e3), fl(1e-3, 1.0),
                         fl(-100.0, -0.01))


@st.composite
def prep_step(draw, allow_trend):
    op = draw(st.sampled_from(["scale_y", "scale_y", "scale_y", "shift_y", "scale_x", "shift_x", "restore_original",
                               "normalize_y", "noise"] + (["trend"] if allow_trend else [])))
    if op == "scale_y":
        return dict(op=op, v=draw(_scale_y_val))
    if op == "scale_x":
        return dict(op=op, v=draw(st.one_of(st.sampled_from([2, 0.5, 60.0, -1.0]), fl(0.01, 100.0))))
    if op in ("shift_y", "shift_x"):
        return dict(op=op, v=draw(st.one_of(st.sampled_from([1, -2.5, 100.0]), fl(-1e3, 1e3))))
    if op == "normalize_y":
        lo = draw(st.one_of(st.sampled_from([0, -1.0, 5.0]), fl(-100.0, 100.0)))
        return dict(op=op, lo=lo, hi=lo + draw(st.one_of(st.sampled_from([1, 2.0, 10.0]), fl(0.1, 100.0))))
    if op == "trend":
        return dict(op=op, a=draw(fl(-2.0, 2.0)), b=draw(fl(-5.0, 5.0)), normalized=draw(st.booleans()))
    if op == "noise":
        return draw(st.one_of(st.builds(lambda s: dict(op="noise", snr=None, std=s), _std_val),
                              st.builds(lambda s: dict(op="noise", snr=s, std=None), _db_val)))
    return dict(op=op)


@st.composite
def weaver_case(draw, ctx):
    c = draw(signal_case(ctx, with_x=True, long_in=10, std_weight=3))
    n = c.get("n", len(c.get("y", [])))
    k = draw(st.sampled_from([0, 1, 1, 2, 2, 3]))
    c["prep"] = [draw(prep_step(allow_trend=n <= 20000)) for _ in range(k)]
    return c


def weaver_pair(res, n, what):
    if not (isinstance(res, tuple) and len(res) == 2):
        raise Violation(f"{what} did not return a pair")
    out = []
    for a in res:
        a = np.asarray(a)
        if a.shape != (n,):
            raise Violation(f"{what}: component has shape {a.shape}, expected ({n},): length changed")
        out.append(a)
    return tuple(out)


def apply_prep(w, steps, seed, n, counter=None):
    """Apply the preparatory operations; returns the labels of those actually applied."""
    done = []
    for j, s in enumerate(steps):
        op = s["op"]
        if op in ("scale_y", "scale_x", "shift_y", "shift_x"):
            getattr(w, op)(s["v"])
        elif op == "restore_original":
            w.restore_original()
        elif op == "normalize_y":
            cur = weaver_pair(w.get(), n, "Weaver.get")[1]
            ref = weaver_pair(w.get_reference(), n, "Weaver.get_reference")[1]
            org = weaver_pair(w.get_original(), n, "Weaver.get_original")[1]
            if not (np.all(np.isfinite(cur)) and cur.min() < cur.max() and ref.min() < ref.max()
                    and org.min() < org.max()):
                if counter is not None:
                    counter("normalize_y-on-constant-skipped")
                continue                                      # precondition of normalise: non-constant data
            w.normalize_y(s["lo"], s["hi"])
        elif op == "trend":
            a, b = s["a"], s["b"]
            w.trend(lambda t: a * t + b, normalized=s["normalized"])
        elif op == "noise":
            np.random.seed((seed + 1 + j) % 2 ** 32)
            if s["snr"] is None:
                w.noise(None, std=s["std"])
            else:
                w.noise(s["snr"])
        done.append(op)
    return done


def weaver_body(ctx, case):
    req, seed = case["req"], case["seed"]
    xin, yin = x_input(case), signal_input(case)
    xk, yk = copy.deepcopy(xin), copy.deepcopy(yin)
    n = len(as_float(yk))
    snr, kw = call_args(req, n)
    w = Weaver(xin, yin)
    done = apply_prep(w, case["prep"], seed, n, ctx.count)
    # the signal is whatever the working series holds now (observed, not modelled: the other properties' business)
    cx, cy = (a.copy() for a in weaver_pair(w.get(), n, "Weaver.get"))
    if not (np.issubdtype(cy.dtype, np.number) and np.all(np.isfinite(cy))):
        raise Violation(f"working ordinates not finite numbers after {done}")
    yf = cy.astype(float)
    what = f"Weaver.noise after {done}" if done else "Weaver.noise"
    # (a) known deviates: the size of the added term on the CURRENT ordinates, sample by sample
    _, handed = with_known_deviates(lambda: w.noise(snr, **kw))
    gx, gy = weaver_pair(w.get(), n, "Weaver.get")
    gy = result_array(gy, n, "y after Weaver.noise")
    if len(w) != n:
        raise Violation(f"len(Weaver) is {len(w)} after noise, was {n}")
    if not np.array_equal(gx, cx):
        raise Violation("Weaver.noise changed x")
    sigma = scale_oracle(yf, req)
    status = check_effective_std(ctx, handed, gy, yf, sigma, what)
    check_some_noise(gy, yf, sigma, what)
    # (b) two twins with the same history under the real generator and the same seeds
    twins = []
    for _ in range(2):
        t = Weaver(x_input(case), signal_input(case))
        apply_prep(t, case["prep"], seed, n)
        np.random.seed(seed)
        t.noise(call_args(req, n)[0], **kw)
        tx, ty = weaver_pair(t.get(), n, "Weaver.get (twin)")
        if not np.array_equal(tx, cx):
            raise Violation("Weaver.noise changed x")
        twins.append(result_array(ty, n, "twin y after Weaver.noise"))
    check_same_bits(twins[0], twins[1], seed, what)
    check_some_noise(twins[0], yf, sigma, f"{what} under seed {seed}")
    harness_draw_matches(ctx, twins[0], yf, sigma, seed)
    if not (same_input(xin, xk) and same_input(yin, yk)):
        raise Violation(f"{what} modified the caller's arrays (the clean signal is lost)")
    cls = classes(case, yin, yf) | {"x:" + case["xkind"], f"history={len(done)}", status} | {"prep:" + d for d in done}
    for s in case["prep"]:
        if s["op"] == "scale_y" and s["op"] in done:
            a = abs(s["v"])
            cls.add("prep:scale_y" + ("<0" if s["v"] < 0 else "") + ("|k|>1" if a > 1 else "|k|<1" if a < 1 else "|k|=1"))
    if req["snr"] is None and any(s["op"] == "scale_y" and s["v"] != 1 for s in case["prep"]):
        cls.add("std-after-scale_y")
    if req["mode"] == "scalar" and any(s["op"] == "scale_x" and s["v"] != 1 for s in case["prep"]):
        cls.add("scalar-snr-after-scale_x")
    ctx.record(case, cls, nontrivial=is_nontrivial(yf))


# ---- 4. several calls in a row on look-alike signals ------------------------------------------------------------------------

@st.composite
def sequence_case(draw, ctx):
    n = draw(st.integers(3, ctx.pick(24, 60)))
    first, last = draw(fl(-10.0, 10.0)), draw(fl(-10.0, 10.0))
    signals = []
    for _ in range(draw(st.integers(2, 3))):
        y = draw(ys(n))["y"]
        y[0], y[-1] = first, last
        signals.append(y)
    steps = [dict(s=draw(st.integers(0, len(signals) - 1)), via=draw(st.sampled_from(["shared", "fresh", "shared"])),
                  req=draw(noise_request(n, std_weight=1)), seed=draw(st.integers(0, 2 ** 32 - 1)))
             for _ in range(draw(st.integers(2, 5)))]
    return dict(signals=signals, steps=steps)


def sequence_body(ctx, case):
    n = len(case["signals"][0])
    shared = np.empty(n)
    cls = set()
    for k, s in enumerate(case["steps"]):
        vals = case["signals"][s["s"]]
        if s["via"] == "shared":
            shared[:] = vals                                  # the same caller array as before, new contents
            yin = shared
        else:
            yin = np.array(vals, dtype=float)
        yf = np.array(vals, dtype=float)
        snr, kw = call_args(s["req"], n)
        what = f"call {k} (signal {s['s']}, {s['via']})"
        np.random.seed(s["seed"])
        raw, handed = with_known_deviates(lambda: process.noise_gauss(yin, snr, **kw))
        r = result_array(raw, n, what + ": result")
        sigma = scale_oracle(yf, s["req"])
        cls.add(check_effective_std(ctx, handed, r, yf, sigma, what))
        check_some_noise(r, yf, sigma, what)
        if yin.tolist() != vals:
            raise Violation(f"{what}: noise_gauss modified its input (the clean signal is lost)")
        if isinstance(raw, np.ndarray) and np.issubdtype(raw.dtype, np.floating) and not np.shares_memory(raw, yin):
            raw.fill(1e300)                                   # nothing handed out may be reused
        cls.update({"via:" + s["via"], "mode:" + s["req"]["mode"]})
    ctx.record(case, cls, nontrivial=len({s["s"] for s in case["steps"]}) >= 2)


# ---- 5. empirical SNR of long series ---------------------------------------------------------------------------------------

N_LONG = 200000
_SIGNALS = ["sine+offset", "sine", "saw", "ints", "two-tone"]
_REQUESTS = ["dB", "linear", "per-sample-dB", "dB", "std", "per-sample-linear", "linear", "dB"]


def _u(h, k):
    """k-th deterministic number in [0, 1) from a digest."""
    return int.from_bytes(h[4 + 4 * k:8 + 4 * k], "big") / 2.0 ** 32


def empirical_cases(ctx, shard, nshards):
    count = ctx.pick(3, 24)
    for i in range(count):
        if i % nshards != shard:
            continue
        h = hashlib.sha256(f"{ctx.seed}/C15/empirical/{i}".encode()).digest()
        seed = int.from_bytes(h[:4], "big")
        skind = _SIGNALS[i % len(_SIGNALS)]
        sig = dict(kind=skind, A=round(0.5 + 20.0 * _u(h, 0), 3), w=round(0.01 + 0.5 * _u(h, 1), 4),
                   c=round(-10.0 + 30.0 * _u(h, 2), 3))
        rkind = _REQUESTS[i % len(_REQUESTS)]
        db_val = round(-10.0 + 70.0 * _u(h, 3), 2)
        if rkind == "dB":
            req = dict(kind=rkind, db=True if i % 2 else None, snr=db_val)
        elif rkind == "linear":
            req = dict(kind=rkind, db=False, snr=round(10.0 ** (db_val / 10.0), 6))
        elif rkind == "per-sample-dB":
            req = dict(kind=rkind, db=True, lo=round(-10.0 + 30.0 * _u(h, 3), 2), hi=round(25.0 + 35.0 * _u(h, 4), 2),
                       period=int(3 + 500 * _u(h, 5)))
        elif rkind == "per-sample-linear":
            req = dict(kind=rkind, db=False, lo=round(0.1 + 5.0 * _u(h, 3), 3), hi=round(100.0 + 1e4 * _u(h, 4), 1),
                       period=int(3 + 500 * _u(h, 5)))
        else:
            req = dict(kind=rkind, std=round(10.0 ** (-2.0 + 4.0 * _u(h, 3)), 5))
        yield dict(index=i, seed=seed, n=N_LONG, signal=sig, req=req, level="weaver" if i % 3 == 1 else "process")


def build_snr(req, n):
    """(argument handed to the code, per-sample linear SNR or None)"""
    kind = req["kind"]
    if kind == "dB":
        return req["snr"], np.full(n, 10.0 ** (req["snr"] / 10.0))
    if kind == "linear":
        return req["snr"], np.full(n, float(req["snr"]))
    if kind in ("per-sample-dB", "per-sample-linear"):
        blocks = (np.arange(n) // req["period"]) % 2          # alternating blocks of low / high snr
        vals = np.where(blocks == 0, float(req["lo"]), float(req["hi"]))
        return vals, (10.0 ** (vals / 10.0) if kind == "per-sample-dB" else vals.astype(float))
    return None, None


def empirical_run(case, y, snr_arg, kw):
    n = case["n"]
    np.random.seed(case["seed"])
    if case["level"] == "weaver":
        w = Weaver(np.arange(n, dtype=float), y)
        w.noise(snr_arg, **kw)
        gx, r = weaver_pair(w.get(), n, "Weaver.get")
        if not np.array_equal(gx, np.arange(n, dtype=float)):
            raise Violation("Weaver.noise changed x")
    else:
        r = process.noise_gauss(y, snr_arg, **kw)
    return result_array(r, n, "noised signal")


def empirical_body(ctx, case):
    n, req = case["n"], case["req"]
    y = build_signal(case["signal"], n)
    yk = y.copy()
    snr_arg, snr_lin = build_snr(req, n)
    kw = {}
    if req.get("db") is not None:
        kw["snr_in_db"] = req["db"]
    if req["kind"] == "std":
        kw["std"] = req["std"]
    r = empirical_run(case, y, snr_arg, kw)
    if y.tobytes() != yk.tobytes():
        raise Violation("noise modified its input")
    yf = y.astype(float)
    noise = r - yf
    power = float(np.mean(yf * yf))
    if req["kind"] == "std":
        sigma = np.full(n, float(req["std"]))
        requested = None
    else:
        sigma = np.sqrt(power / snr_lin)
        requested = 10.0 * np.log10(snr_lin)
    # (a) the series is long, not different: same seed -> same bits; with known deviates the added term has the
    #     requested size sample by sample
    label = f"{case['level']}-level noise on {n} samples"
    r2 = empirical_run(case, build_signal(case["signal"], n), build_snr(req, n)[0], kw)
    check_same_bits(r, r2, case["seed"], label)
    check_some_noise(r, yf, sigma, label)
    harness_draw_matches(ctx, r, yf, sigma, case["seed"])
    r3, handed = with_known_deviates(
        lambda: empirical_run(case, build_signal(case["signal"], n), build_snr(req, n)[0], kw))
    status = check_effective_std(ctx, handed, r3, yf, sigma, label)
    # (b) statistics
    if req["kind"] in ("dB", "linear"):
        # literally the statement: empirical 10*log10(mean(y^2)/var(noise)) against the requested value
        var = float(np.var(noise))
        if not var > 0:
            raise Violation("noise has zero variance")
        emp = 10.0 * math.log10(power / var)
        dev = emp - float(requested[0])
        msg = f"empirical SNR {emp:.4f} dB, requested {float(requested[0]):.4f} dB"
    else:
        # per-sample snr / explicit std: the same quantity on the whitened noise noise_i / sigma_i (variance 1)
        var = float(np.var(noise / sigma))
        if not var > 0:
            raise Violation("noise has zero variance")
        dev = -10.0 * math.log10(var)
        msg = f"noise variance is {var:.5f} x the requested one ({dev:+.4f} dB)"
    if not abs(dev) <= 0.1:
        raise Violation(f"{msg}: off by more than 0.1 dB over {n} samples (seed {case['seed']})",
                        detail=dict(mean_y2=power, mean_y_squared=float(np.mean(yf)) ** 2))
    zmean = float(np.mean(noise / sigma))
    if not abs(zmean) <= 5.0 / math.sqrt(n):
        raise Violation(f"noise mean is {zmean * math.sqrt(n):+.2f} standard errors from 0 over {n} samples "
                        f"(seed {case['seed']})")
    if abs(dev) > 0.05:
        ctx.count("dev>0.05dB")
    if abs(zmean) > 3.0 / math.sqrt(n):
        ctx.count("mean>3se")
    cls = {"signal:" + case["signal"]["kind"], "request:" + req["kind"], "level:" + case["level"], status}
    if req.get("db", 0) is None:
        cls.add("dB-default")
    if float(np.min(yf)) < 0 < float(np.max(yf)):
        cls.add("sign-changing")
    m2 = float(np.mean(yf)) ** 2
    ctx.record(case, cls, nontrivial=abs(power - m2) > 1e-6 * power and abs(power - 1.0) > 1e-6)


SUBCHECKS = [
    Sub("spy", "hyp", sticky(spy_body), strategy=lambda ctx: signal_case(ctx, long_in=10), quick=400, thorough=8000,
        clause="result - y = sigma_i * (standard deviate), sigma_i = sqrt(mean(y^2)/SNR) (dB / linear / per sample) or "
               "std, read off with known deviates; nothing else is added; input untouched; short and long signals"),
    Sub("repro", "hyp", sticky(repro_body), strategy=lambda ctx: signal_case(ctx, long_in=4), quick=500,
        thorough=10000,
        clause="fixed NumPy seed: two runs bitwise equal (noise present, not one value for all samples); the same call "
               "with known deviates; one case in five has a length at / next to a round threshold up to 2^20"),
    Sub("weaver", "hyp", sticky(weaver_body), strategy=weaver_case, quick=400, thorough=8000,
        clause="Weaver.noise on an object with 0..3 earlier operations: x and length unchanged, size of the added term "
               "and reproducibility judged on the current ordinates"),
    Sub("sequence", "hyp", sticky(sequence_body), strategy=sequence_case, quick=100, thorough=2000,
        clause="every call is judged on its own arguments: 2..5 calls in a row on look-alike signals, caller array "
               "edited in place"),
    Sub("empirical", "enum", sticky(empirical_body), cases=empirical_cases, shards=8, exhaustive=False,
        clause="2*10^5-sample series: empirical SNR within 0.1 dB of the request, noise mean within 5 sigma/sqrt(N), "
               "and the same seeded-replay checks as for short series"),
]
