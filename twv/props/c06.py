"""C06 - transitions follow the documented geometry and shape functions."""
import itertools
from fractions import Fraction

import numpy as np
from hypothesis import strategies as st

from twv import gens, oracles, rfagen
from twv.gens import fl
from twv.runner import Sub, Violation

import traffic_weaver.funfit as funfit

PROPERTY = "C06"
LEVEL = "exploration"
RULE = ("shape: Hypothesis draws (x0 < x1, x in [x0, x1] incl. both ends, y0, y1, exponent in (0,5]) for the five "
        "shape functions, floats against the closed forms and Fractions with integer exponents for exact equality; "
        "fixed/adaptive: the C05 generator restricted to LinearFixed/ExpFixed resp. LinearAdaptive/ExpAdaptive "
        "(adaptive_smooth at its default 1), every recreated sample compared with a reference model written from "
        "the class docstrings (windows from the documented rule in exact rationals). Non-trivial = an interval "
        "with two different non-zero jumps, a >= 4 and (exp family) exp != 2, beta not in {0, 0.5} or non-uniform x; "
        "shape cases: x strictly inside and y0 != y1.")
ASSUMPTIONS = ["adaptive_smooth fixed at 1 (documentation says 1/s, code uses s: they agree only there)",
               "integer windows: when the real-valued window is within 1e-9 of an integer both neighbours are accepted",
               "tolerance (1e-10 + 1024*eps*max|x|/substep) * local value scale: relative positions inherit the "
               "rounding of the oversampled abscissae",
               "the last sample (belongs to no interval) is not modelled"]
TECHNIQUE = ("Hypothesis-generated inputs against a reference model of the window strategies written from the "
             "docstrings, and closed forms (float + exact Fraction) for the five shape functions")
LEVEL_TEXT = ("Differential exploration: every sample of every interval is compared with an independent model of "
              "the documented geometry (border value by linear interpolation between plateau ends, per-sample "
              "line / linear + power blend, adaptive split by the jump ratio).")
LEVEL_NOTE = "trusts twv/oracles.py window_model (about 70 lines written from the docstrings) and shape()"

EPS = 2.0 ** -52
SHAPES = {"lin": "lin_fit", "exp": "exp_fit", "exp_xy": "exp_xy_fit", "exp_lin": "exp_lin_fit",
          "lin_exp_xy": "lin_exp_xy_fit"}


def closed_form(name, t, u, e):
    if name == "lin":
        return t
    if name == "exp":
        return t ** e
    if name == "exp_xy":
        return 1 - u ** e
    if name == "exp_lin":
        return t * t + u * t ** e
    return t * (1 - u ** e) + u * t


# ---- (a) shape functions ---------------------------------------------------------------------------------------------

@st.composite
def shape_case(draw, ctx):
    name = draw(st.sampled_from(sorted(SHAPES)))
    x0 = draw(st.one_of(st.integers(-10, 10).map(float), fl(-1e3, 1e3)))
    w = draw(st.one_of(st.integers(1, 16).map(float), fl(1e-3, 1e3)))
    x1 = x0 + w
    pos = draw(st.sampled_from(["inside", "inside", "inside", "start", "end"]))
    if pos == "start":
        x = x0
    elif pos == "end":
        x = x1
    else:
        x = x0 + draw(fl(0.0, 1.0)) * (x1 - x0)
        x = min(max(x, x0), x1)
    y0 = draw(st.one_of(st.integers(-5, 5).map(float), fl(-1e4, 1e4)))
    y1 = draw(st.one_of(st.integers(-5, 5).map(float), fl(-1e4, 1e4)))
    e = draw(st.one_of(st.none(), st.sampled_from([1.0, 2.0, 3.0, 0.5]), fl(0.01, 5.0)))
    # values next to the bottom of the normal range: value * distance underflows into subnormals (not judged)
    y0 = 0.0 if 0 < abs(y0) < 1e-100 else y0
    y1 = 0.0 if 0 < abs(y1) < 1e-100 else y1
    return dict(name=name, x0=x0, x1=x1, x=x, y0=y0, y1=y1, e=e, pos=pos)


def _call_shape(name, x, p0, p1, e):
    fn = getattr(funfit, SHAPES[name])
    if name == "lin":
        return fn(x, p0, p1)
    if e is None:
        return fn(x, p0, p1)
    return fn(x, p0, p1, alpha=e)


def shape_body(ctx, case):
    name, x0, x1, x, y0, y1 = (case[k] for k in ("name", "x0", "x1", "x", "y0", "y1"))
    e = case["e"]
    got = _call_shape(name, x, (x0, y0), (x1, y1), e)
    try:
        got = float(got)
    except (TypeError, ValueError):
        raise Violation(f"{SHAPES[name]} returned {type(got).__name__}")
    ee = 2.0 if e is None else e
    t = (x - x0) / (x1 - x0)
    u = (x1 - x) / (x1 - x0)
    want = y0 + (y1 - y0) * closed_form(name, t, u, ee)
    scale = max(abs(y0), abs(y1)) + 1e-300
    if abs(got - want) > 1e-12 * scale:
        raise Violation(f"{SHAPES[name]}(x={x!r}, ({x0!r},{y0!r}), ({x1!r},{y1!r}), exponent={ee!r}) = {got!r}, closed "
                        f"form gives {want!r}")
    if case["pos"] == "start" and abs(got - y0) > 4 * EPS * scale:
        raise Violation(f"{SHAPES[name]} does not start at y0: {got!r} vs {y0!r}")
    if case["pos"] == "end" and abs(got - y1) > 4 * EPS * scale:
        raise Violation(f"{SHAPES[name]} does not end at y1: {got!r} vs {y1!r}")
    cls = [name, "pos:" + case["pos"], "exp:default" if e is None else ("exp:2" if e == 2.0 else "exp:other")]
    ctx.record(case, cls, case["pos"] == "inside" and y0 != y1 and x0 < x < x1)


@st.composite
def shape_exact_case(draw, ctx):
    name = draw(st.sampled_from(sorted(SHAPES)))
    den = draw(st.sampled_from([1, 2, 3, 5, 8]))
    x0 = draw(st.integers(-20, 20))
    w = draw(st.integers(1, 30))
    k = draw(st.integers(0, w))
    return dict(name=name, den=den, x0=x0, w=w, k=k, y0=[draw(st.integers(-30, 30)), draw(st.integers(1, 7))],
                y1=[draw(st.integers(-30, 30)), draw(st.integers(1, 7))], e=draw(st.integers(1, 4)))


def shape_exact_body(ctx, case):
    den = case["den"]
    x0 = Fraction(case["x0"], den)
    x1 = Fraction(case["x0"] + case["w"], den)
    x = Fraction(case["x0"] + case["k"], den)
    y0, y1 = Fraction(*case["y0"]), Fraction(*case["y1"])
    e = case["e"]
    got = _call_shape(case["name"], x, (x0, y0), (x1, y1), e)
    t = (x - x0) / (x1 - x0)
    want = y0 + (y1 - y0) * closed_form(case["name"], t, 1 - t, e)
    if isinstance(got, Fraction) or (isinstance(got, int) and not isinstance(got, bool)):
        if got != want:
            raise Violation(f"{SHAPES[case['name']]} exact: got {got}, closed form {want} (t={t}, exponent {e})")
        if case["k"] == 0 and got != y0 or case["k"] == case["w"] and got != y1:
            raise Violation(f"{SHAPES[case['name']]} exact: end point missed")
    else:
        # a shape function that answers in floating point (e.g. converts its result with float()): the same closed
        # form and end points, to rounding
        ctx.count("shape-judged-in-floats")
        g = float(got)
        scale = max(abs(float(y0)), abs(float(y1)), 1e-300)
        if abs(g - float(want)) > 1e-12 * scale:
            raise Violation(f"{SHAPES[case['name']]}: got {g!r}, closed form {float(want)!r} (= {want}; t={t}, exponent {e})")
    ctx.record(case, [case["name"], f"exp={e}"], 0 < case["k"] < case["w"] and y0 != y1)


# ---- (b), (c) strategies against the reference model ----------------------------------------------------------------

def _tolerances(case):
    x = case["x"]
    n = case["n"]
    sub = min(b - a for a, b in zip(x[:-1], x[1:])) / n
    cond = max(abs(v) for v in x) / sub
    return 1e-10 + 1024 * EPS * cond


def _compare_interval(case, k, got, want, rel, ar=0):
    """The right transition of the last interval ends at the series' final sample, not at an interior border:
    the statement does not cover it and it is not compared."""
    y = case["y"]
    if k == len(y) - 2 and ar > 0:
        got, want = got[:len(got) - ar], want[:len(want) - ar]
    left = y[k - 1] if k > 0 else y[k]
    scale = max(abs(left), abs(y[k]), abs(y[k + 1])) + 1e-300
    tol = rel * scale
    for i, (g, w) in enumerate(zip(got, want)):
        if abs(float(g) - w) > tol:
            return i, float(g), w, tol
    return None


def _family(name):
    return "linear" if name.startswith("Linear") else "exp"


def _nontrivial(case, k, a):
    y = case["y"]
    if k == 0:
        return False
    jl, jr = abs(y[k] - y[k - 1]), abs(y[k + 1] - y[k])
    if jl == 0 or jr == 0 or jl == jr or a < 4:
        return False
    if _family(case["strategy"]) == "exp":
        kw = case["kw"]
        return (kw.get("exp", 2.0) != 2.0 or kw.get("beta", 0.5) not in (0.0, 0.5)
                or not gens.is_uniform(case["x"]))
    return True


def fixed_body(ctx, case):
    xs, zs = rfagen.run_rfa(case)
    x, y, n = case["x"], case["y"], case["n"]
    m = len(x)
    a = gens.effective_a(case["kw"], n)
    h = int(a / 2)
    model = oracles.window_model([float(v) for v in x], y, n, oracles.fixed_windows(a, m), _family(case["strategy"]),
                                 beta=case["kw"].get("beta", 0.5), exponent=case["kw"].get("exp", 2.0), virtual=(h, h))
    rel = _tolerances(case)
    nt = False
    for k in range(m - 1):
        bad = _compare_interval(case, k, zs[k * n:(k + 1) * n], model[k], rel, h)
        if bad:
            i, g, w, tol = bad
            raise Violation(f"{case['strategy']} interval {k} sample {i}: got {g!r}, documented geometry gives {w!r} "
                            f"(a={a}, kw={case['kw']}, tol {tol:.3g})",
                            detail=dict(got=zs[k * n:(k + 1) * n].tolist(), model=model[k]))
        nt = nt or _nontrivial(case, k, a)
    ctx.record(case, rfagen.classes(case), nt)


def adaptive_body(ctx, case):
    xs, zs = rfagen.run_rfa(case)
    x, y, n = case["x"], case["y"], case["n"]
    m = len(x)
    a = gens.effective_a(case["kw"], n)
    if not gens.jump_ratio_ok(y):
        ctx.count("excluded_known_KF2")
        return
    cands = [oracles.adaptive_window_candidates(y, a, k) for k in range(m - 1)]
    rel = _tolerances(case)
    fam = _family(case["strategy"])
    beta, ex = case["kw"].get("beta", 0.5), case["kw"].get("exp", 2.0)
    base = [c[0] for c in cands]
    cls = set(rfagen.classes(case))
    nt = False
    xf = [float(v) for v in x]
    model0 = oracles.window_model(xf, y, n, base, fam, beta=beta, exponent=ex)
    for k in range(m - 1):
        seg = zs[k * n:(k + 1) * n]
        bad = _compare_interval(case, k, seg, model0[k], rel, max(c[1] for c in cands[k]))
        if bad:
            # ambiguity: try the other admissible windows of this interval and of its two neighbours
            around = [j for j in (k - 1, k, k + 1) if 0 <= j < m - 1]
            ok = False
            if any(len(cands[j]) > 1 for j in around):
                for combo in itertools.product(*[cands[j] for j in around]):
                    wins = list(base)
                    for j, c in zip(around, combo):
                        wins[j] = c
                    alt = oracles.window_model(xf, y, n, wins, fam, beta=beta, exponent=ex)
                    if _compare_interval(case, k, seg, alt[k], rel, max(c[1] for c in cands[k])) is None:
                        ok = True
                        ctx.count("ambiguous-window-accepted")
                        break
            if not ok:
                i, g, w, tol = bad
                raise Violation(f"{case['strategy']} interval {k} sample {i}: got {g!r}, documented geometry gives "
                                f"{w!r} (a={a}, windows {base[k]}, kw={case['kw']}, tol {tol:.3g})",
                                detail=dict(got=seg.tolist(), model=model0[k], windows=base))
        # qualitative clause, read off the output alone: the side with the larger jump never has the larger window
        left = y[k - 1] if k > 0 else y[k]
        jl, jr = abs(y[k] - left), abs(y[k + 1] - y[k])
        sc = max(abs(left), abs(y[k]), abs(y[k + 1]))
        if min(jl, jr) > 1e-6 * sc:      # both transitions are visible above the 1e-12 'differs' threshold
            thr = 1e-12 * sc
            d = [abs(float(v) - y[k]) > thr for v in seg]
            p = 0
            while p < n and d[p]:
                p += 1
            s = 0
            while s < n - p and d[n - 1 - s]:
                s += 1
            al_obs, ar_obs = p, s + 1
            if jr > jl and ar_obs > al_obs and len(cands[k]) == 1:
                raise Violation(f"interval {k}: right jump {jr!r} > left jump {jl!r} but the right window ({ar_obs}) is "
                                f"larger than the left one ({al_obs})")
            if jl > jr and al_obs > ar_obs and len(cands[k]) == 1:
                raise Violation(f"interval {k}: left jump {jl!r} > right jump {jr!r} but the left window ({al_obs}) is "
                                f"larger than the right one ({ar_obs})")
        cls.add("tie:" + rfagen.tie_pattern(y, k))
        nt = nt or _nontrivial(case, k, a)
    ctx.record(case, sorted(cls), nt)


YK = ["ties", "int", "int", "dyadic", "smooth", "sign", "offset"]


def fixed_case(ctx):
    return rfagen.rfa_case(ctx, strategies=["LinearFixedRFA", "ExpFixedRFA", "ExpFixedRFA"], ykinds=YK, m_lo=2)


def adaptive_case(ctx):
    return rfagen.rfa_case(ctx, strategies=["LinearAdaptiveRFA", "ExpAdaptiveRFA", "ExpAdaptiveRFA"], ykinds=YK,
                           m_lo=2, smooth_default=True)


SUBCHECKS = [
    Sub("shape", "hyp", shape_body, strategy=shape_case, quick=2000, thorough=60000,
        clause="the five shape functions equal their closed forms for every exponent and hit both end points"),
    Sub("shape_exact", "hyp", shape_exact_body, strategy=shape_exact_case, quick=600, thorough=12000,
        clause="same, exact rational arithmetic with integer exponents"),
    Sub("fixed", "hyp", gens.with_window_candidates(fixed_body), strategy=fixed_case, quick=3000, thorough=60000,
        clause="fixed-window strategies: border value and per-sample shape as documented"),
    Sub("adaptive", "hyp", gens.with_window_candidates(adaptive_body), strategy=adaptive_case, quick=3000, thorough=60000,
        clause="adaptive strategies: window split by the jump ratio, values as documented"),
]
