"""C13 - interpolation honours the data and the requested grid."""
import math
import warnings
from fractions import Fraction

import numpy as np
from hypothesis import strategies as st

from twv.runner import Sub, Violation, digest
from twv.gens import fl, xs, ys

import traffic_weaver.process as process
from traffic_weaver import Weaver

PROPERTY = "C13"
LEVEL = "exploration"
RULE = ("Hypothesis builds series of 4..60 samples (eight spacing kinds incl. integer dtype, non-uniform gaps with "
        "max/min ratio <= 1e2 and a 1e6 offset, plus epoch seconds 1.7e9 + step*k (step 1/60/3600, float or int64) "
        "and tiny scales 1e-9..1e-11 * lattice; seven value kinds plus affine p*x+q; ndarray / list / int64 "
        "containers) and sorted new grids composed point by point from: a sample, one ulp beside a sample, inside a "
        "cell, a cell midpoint, below / above the data, a duplicate; grid profiles 'the samples themselves', "
        "'superset of the samples', 'subset', 'inside only', 'mixed', 'beyond', 'shifted' (same length as x, end "
        "points kept, interior points moved by 0.1..0.9 of the neighbouring gap, forwards / backwards / mixed, "
        "preferably on epoch / tiny abscissae) and 'integer grid' (np.arange-like or random integers around the "
        "range; every all-integer grid is passed as int64 array or list of Python ints, with non-integer y). "
        "Weaver.interpolate(n) is also run with n = len(x) on non-uniform epoch / tiny x; weaver_history applies 1..4 "
        "preparatory steps (shift_y, scale_y, shift_x, scale_x > 0, polynomial trend, seeded noise, smooth, "
        "interpolate by n / shifted / refined / thinned grid, append_one_sample(make_periodic True/False), repeat, "
        "truncate_by_index / _by_value keeping >= 5 samples, normalize_x / _y, restore_original) to one Weaver "
        "and then, replaying the history on a new object per method, interpolates with every method on a grid "
        "derived from the current abscissae or with n points, judged against copies of get() (non-trivial there = "
        "the working series differs from the reference); process_history keeps ONE pair of ndarray objects (and a "
        "second pair of equal shape, and the grid object) and alternates calls of process.interpolate with in-place "
        "edits of y (one element, affine overwrite, rescale, reverse, sine), of x (affine map, one abscissa moved "
        "between its neighbours) and of the grid, judging every call against the current contents (non-trivial "
        "there = the same objects are passed again after an edit). Each of the four methods is run "
        "through process.interpolate; Weaver.interpolate is run with n in 2..200 (thorough 2..600) and with explicit "
        "grids whose end points are equal, or differ at the first / last / both ends (by one ulp or more), and with "
        "unknown method names. Non-trivial = the new grid is not a subset of the samples (at_samples: the values "
        "are not all equal; refusals: every refused request); distinct = distinct full input.")
ASSUMPTIONS = ["x strictly increasing, new grid non-decreasing and non-empty (documented preconditions)",
               "cubic/spline compared at the samples with 1e-9*max|y| (measured 6e-13) on grids with max/min gap "
               "ratio <= 1e2; 'linear' with 1e-12*(|y_i|+|y_i+1|) against the exact rational two-point value "
               "(measured 3e-16 also for x = 1.7e9 + k and 1e-9*k: x_i+1 - x_i and q - x_i are exact float "
               "differences, so the two-point formula suffers no eps*|x|/gap amplification and the tolerance was "
               "not widened); affine data against the exact rational p*q + c with 512*eps*S ('linear') and "
               "512*r^2*eps*S (cubic/spline), S = |p|*max|x|+|q|, r = max/min gap (see affine_tolerance; measured "
               "<= 0.009 of the tolerance)",
               "interpolate(n): steps equal the exact (x_last - x_first)/(n-1) within 16 ulp of max|x| (numpy.linspace "
               "itself deviates by up to 3.64 ulp in a 2e5-case search, so DESIGN's 4 ulp was widened)",
               "kwargs_history: calls with explicit keywords are only checked for a finite result of the right "
               "length; the library's state cannot be reset between cases, every default call is judged on its own",
               "a violation observed for a case is reported again when Hypothesis re-executes that case in the same "
               "process (faults that keep state between calls make the verdict depend on what ran before)",
               "history steps are applied only when their documented preconditions hold for the current series "
               "(otherwise skipped and counted): >= 5 samples remain, abscissae stay distinct in float arithmetic, "
               "normalize_y on non-constant values, truncate_by_index only while working and reference have the same "
               "length, repeat up to 400 samples",
               "weaver_history: histories whose abscissae leave the conditioned range (not strictly increasing in "
               "float arithmetic, fewer than 5 samples, gap ratio > 1e2) or that trigger a FITPACK warning are "
               "counted and not judged",
               "outside the data range only finiteness is asserted for linear/cubic/spline (not stated)",
               "'exactly' is value equality (==), so -0.0 and 0.0 are not distinguished"]
TECHNIQUE = ("Hypothesis-generated series x grids x methods against brute-force definitions (last sample at or before "
             "the point; exact rational two-point line; closed-form affine map; exact-rational equal-step grid)")
LEVEL_TEXT = ("Randomized exploration with independent oracles written from the statement: a linear scan for the "
              "piecewise-constant value, the two-point line in exact rational arithmetic, p*x+q for affine data, and "
              "the n-point equally spaced grid evaluated in rationals; refusals are checked together with an "
              "attribute-by-attribute comparison of the Weaver's state. The input space is unbounded, so this samples "
              "it; nothing is asserted about how cubic/spline behave between samples of non-affine data.")
LEVEL_NOTE = "trusts the oracles in this module (about sixty lines, no traffic_weaver or SciPy code) and the tolerances"

METHODS = ["linear", "constant", "cubic", "spline"]
STEP_ULPS = 16
EPS = 2.0 ** -52
# unmistakably unknown: no case / whitespace variants, abbreviations or names a library might adopt as aliases
BOGUS = ["bogus", "", "no-such-method", "42", "fourier", "wavelet7"]


# ---- oracles (independent of traffic_weaver) -------------------------------------------------------------------

def lower_cell(x, q):
    """index of the last sample at or before q, or None when q lies left of the data (linear scan)."""
    best = None
    for i, v in enumerate(x):
        if v <= q:
            best = i
    return best


def constant_value(x, y, q):
    i = lower_cell(x, q)
    return y[0] if i is None else y[i]


def linear_value(x, y, q):
    """('exact', y_i) on a sample; ('inside', exact rational value, local magnitude) strictly between two
    neighbouring samples; ('outside', None) beyond the data."""
    i = lower_cell(x, q)
    if i is None or q > x[-1]:
        return ("outside", None, None)
    if x[i] == q:
        return ("exact", y[i], None)
    return ("inside", i, abs(float(y[i])) + abs(float(y[i + 1])))


def two_point_exact(x, y, i, q):
    a, b = Fraction(x[i]), Fraction(x[i + 1])
    ya, yb = Fraction(y[i]), Fraction(y[i + 1])
    return ya + (yb - ya) * (Fraction(q) - a) / (b - a)


def two_point_float(x, y, i, q):
    """float evaluation of the same line: x differences are exact, the rest carries at most 4 eps*(|y_i|+|y_i+1|)"""
    xa, ya, yb = float(x[i]), float(y[i]), float(y[i + 1])
    return ya + (yb - ya) * ((float(q) - xa) / (float(x[i + 1]) - xa))


def affine_tolerance(method, x, p, c):
    """The samples fl(p*x_i + c) carry a rounding error of up to eps*(|p|*max|x| + |c|) =: eps*S (for epoch-like x
    that is eps*|x|/gap relative to the change of y over one gap, the term that matters there).  'linear' forms a
    convex combination of two samples: measured <= 1 eps*S.  The cubic / B-spline fits amplify data errors on
    non-uniform grids; measured against the exact rational p*q + c: <= 7 eps*S for gap ratio r <= 10 and
    <= 2.1e3 eps*S for r <= 100, i.e. growing no faster than r**2.  Tolerance 512*eps*S for 'linear' and
    512*r**2*eps*S (1.1e-9*S at r = 100) for the splines keeps >= 2 decades of head-room at every r (worst
    measured ratio deviation/tolerance 0.009) and is, for x = 1.7e9 + k, still 1000 times smaller than the change
    of y over a tenth of a gap."""
    d = [float(b) - float(a) for a, b in zip(x[:-1], x[1:])]
    r = max(d) / min(d)
    scale = abs(p) * max(abs(float(x[0])), abs(float(x[-1]))) + abs(c)
    k = 512.0 if method == "linear" else 512.0 * max(1.0, r) ** 2
    return k * EPS * scale


def check_values(method, x, y, grid, got, affine=None, where=""):
    """All clauses of the statement that apply to `method` evaluated on `grid`.  x, y, grid: lists of Python
    numbers; got: float ndarray already validated for shape."""
    gl = [float(v) for v in got]
    ymax = max(abs(float(v)) for v in y)
    aff_tol = Fraction(affine_tolerance(method, x, *affine)) if affine is not None else None
    aff_half = 0.5 * float(aff_tol) if affine is not None else None
    for j, q in enumerate(grid):
        g = gl[j]
        if not math.isfinite(g):
            raise Violation(f"{where}{method}: non-finite value {g!r} at new point {q!r} (index {j})")
        if method == "constant":
            want = constant_value(x, y, q)
            if g != want:
                raise Violation(f"{where}constant: value at {q!r} (index {j}) is {g!r}, the last sample at or before "
                                f"it (first value left of the data) is {want!r}")
            continue
        if method == "linear":
            kind, want, local = linear_value(x, y, q)
            if kind == "exact" and g != want:
                raise Violation(f"{where}linear: value at the sample abscissa {q!r} is {g!r}, sample value {want!r}")
            # cheap float screen first (its own error is < 1e-15*local); exact rationals decide everything else
            if kind == "inside" and not abs(g - two_point_float(x, y, want, q)) <= 0.5e-12 * local:
                exact = two_point_exact(x, y, want, q)
                if abs(Fraction(g) - exact) > Fraction(1e-12) * Fraction(local):
                    raise Violation(f"{where}linear: value at {q!r} (index {j}) is {g!r}, the straight line between "
                                    f"the neighbouring samples gives {float(exact)!r}")
        else:
            i = lower_cell(x, q)
            if i is not None and x[i] == q and abs(g - float(y[i])) > 1e-9 * ymax:
                raise Violation(f"{where}{method}: value at the sample abscissa {q!r} is {g!r}, sample value "
                                f"{y[i]!r} (tolerance {1e-9 * ymax:.3g})")
        if affine is not None and x[0] <= q <= x[-1]:
            p, c = affine
            if abs(g - (p * float(q) + c)) <= aff_half:          # float screen: p*q + c is within 2 eps*S of exact
                continue
            want = Fraction(p) * Fraction(q) + Fraction(c)
            if abs(Fraction(g) - want) > aff_tol:
                raise Violation(f"{where}{method}: affine data {p!r}*x+{c!r} not reproduced at {q!r}: got {g!r}, "
                                f"expected {float(want)!r} (tolerance {float(aff_tol):.3g})")


def check_array(res, n, where):
    if not isinstance(res, np.ndarray):
        raise Violation(f"{where}: result is {type(res).__name__}, not ndarray")
    if res.shape != (n,):
        raise Violation(f"{where}: result shape {res.shape}, expected ({n},)")
    if not (np.issubdtype(res.dtype, np.floating) or np.issubdtype(res.dtype, np.integer)):
        raise Violation(f"{where}: result dtype {res.dtype}")
    return res


# ---- generators ---------------------------------------------------------------------------------------------------

def _is_int(v):
    return float(v).is_integer() and abs(v) < 2 ** 40


INT_X_KINDS = ["unit", "hours", "epoch"]                       # every abscissa is an integer
INT_FRIENDLY_X_KINDS = ["unit", "hours", "dyadic", "motif", "epoch"]   # the range contains several integers
NON_INTEGER_Y_KINDS = ["dyadic", "smooth", "sign", "offset", "smooth"]


@st.composite
def epoch_x(draw, m):
    """epoch seconds 1.7e9 + step*k (steps of a second / minute / hour, uniform or with gap ratio <= 100): inside
    numpy.allclose's default rtol of the neighbouring samples although the gaps are wide."""
    start = 1_700_000_000 + draw(st.integers(0, 10 ** 6))
    step = draw(st.sampled_from([1, 60, 3600]))
    if draw(st.booleans()):
        mult = [1] * (m - 1)
    else:
        mult = draw(st.lists(st.sampled_from([1, 1, 2, 3, 5, 24, 100]), min_size=m - 1, max_size=m - 1))
    x = [start]
    for k in mult:
        x.append(x[-1] + step * k)
    as_int = draw(st.booleans())
    return dict(kind="epoch-int" if as_int else "epoch", x=[int(v) for v in x] if as_int else [float(v) for v in x],
                int=as_int)


@st.composite
def tiny_x(draw, m):
    """1e-9 (1e-10, 1e-11) * lattice: neighbouring samples lie inside numpy.allclose's default atol of each other."""
    unit = draw(st.sampled_from([1e-9, 1e-9, 1e-10, 1e-11]))
    k0 = draw(st.integers(-50, 50))
    if draw(st.booleans()):
        mult = [1.0] * (m - 1)
    else:
        mult = draw(st.lists(st.sampled_from([0.25, 0.5, 1.0, 2.0, 7.0, 20.0]), min_size=m - 1, max_size=m - 1))
    k = [float(k0)]
    for v in mult:
        k.append(k[-1] + v)
    return dict(kind="tiny", x=[unit * v for v in k], int=False)


@st.composite
def any_x(draw, m, xmode=None):
    if xmode == "intx":
        kind = draw(st.sampled_from(INT_X_KINDS))
    elif xmode == "intfriendly":
        kind = draw(st.sampled_from(INT_FRIENDLY_X_KINDS))
    elif xmode == "close":
        # abscissae whose neighbours are 'close' for a float comparison with default tolerances
        kind = draw(st.sampled_from(["epoch", "epoch", "tiny", "tiny", "gens"]))
    else:
        kind = draw(st.sampled_from(["gens"] * 6 + ["epoch", "epoch", "tiny"]))
    if kind == "epoch":
        return draw(epoch_x(m))
    if kind == "tiny":
        return draw(tiny_x(m))
    return draw(xs(m, None if kind == "gens" else [kind], max_ratio=1e2))


@st.composite
def base(draw, ctx, affine=False, nonconstant=False, xmode=None, ykinds=None, m_lo=4):
    m = draw(st.integers(m_lo, 60))
    xd = draw(any_x(m, xmode))
    x = xd["x"]
    case = dict(x=x, xkind=xd["kind"], xint=bool(xd["int"]))
    if affine:
        p = draw(st.one_of(st.sampled_from([1.0, -1.0, 2.0, 0.5, -0.25, 0.0, 3.0]),
                           st.builds(lambda s, e: s * 10.0 ** e, st.sampled_from([-1.0, 1.0]), fl(-3.0, 3.0))))
        c = draw(st.one_of(st.integers(-20, 20).map(float), fl(-1e3, 1e3)))
        case.update(y=[p * float(v) + c for v in x], ykind="affine", p=p, c=c)
    else:
        yd = draw(ys(m, ykinds, nonconstant=nonconstant))
        case.update(y=yd["y"], ykind=yd["kind"])
    case["xc"] = draw(st.sampled_from(["array", "array", "array", "list"]))
    yc = ["array", "array", "array", "list"]
    if all(_is_int(v) for v in case["y"]):
        yc.append("int")
    case["yc"] = draw(st.sampled_from(yc))
    return case


POINT_KINDS = dict(
    inside=["between", "between", "mid", "ulp+", "ulp-i"],
    subset=["elem"],
    mixed=["elem", "between", "mid", "ulp+", "ulp-", "below", "above", "dup", "first", "last"],
    beyond=["below", "above", "below0", "above0", "elem", "between", "first", "last"],
)


@st.composite
def points(draw, x, profile, lo=1, hi=40, clip=False):
    """sorted list of new abscissae; `clip` keeps them inside [x[0], x[-1]]."""
    m = len(x)
    span = float(x[-1] - x[0])
    kinds = POINT_KINDS[profile]
    n = draw(st.integers(lo, hi))
    out = []
    kind_st, index_st, unit_st, two_st = st.sampled_from(kinds), st.integers(0, m - 1), fl(0.0, 1.0), fl(0.0, 2.0)
    for _ in range(n):
        kind = draw(kind_st)
        i = draw(index_st)
        xi = float(x[i])
        if kind == "elem":
            v = xi
        elif kind == "first":
            v = float(x[0])
        elif kind == "last":
            v = float(x[-1])
        elif kind == "ulp+":
            v = math.nextafter(xi, math.inf)
        elif kind == "ulp-":
            v = math.nextafter(xi, -math.inf)
        elif kind == "ulp-i":
            v = math.nextafter(xi, -math.inf) if i > 0 else math.nextafter(xi, math.inf)
        elif kind == "mid":
            j = min(i, m - 2)
            v = float(x[j]) + (float(x[j + 1]) - float(x[j])) / 2
        elif kind == "between":
            j = min(i, m - 2)
            v = float(x[j]) + draw(unit_st) * (float(x[j + 1]) - float(x[j]))
        elif kind == "below":
            v = float(x[0]) - draw(two_st) * span
        elif kind == "above":
            v = float(x[-1]) + draw(two_st) * span
        elif kind == "below0":
            v = math.nextafter(float(x[0]), -math.inf)
        elif kind == "above0":
            v = math.nextafter(float(x[-1]), math.inf)
        elif kind == "dup" and out:
            v = out[draw(st.integers(0, len(out) - 1))]
        else:
            v = xi
        if clip:
            v = min(max(v, float(x[0])), float(x[-1]))
        out.append(float(v))
    out.sort()
    return out


@st.composite
def shifted_points(draw, x):
    """same length as x: end points kept, every interior point moved by 0.1..0.9 of the gap on that side."""
    m = len(x)
    xf = [float(v) for v in x]
    mode = draw(st.sampled_from(["fwd", "bwd", "mixed"]))
    same_t = draw(st.booleans())
    t0 = draw(st.one_of(st.just(0.5), fl(0.1, 0.9)))
    out = [xf[0]]
    t_st, bool_st = fl(0.1, 0.9), st.booleans()
    for i in range(1, m - 1):
        t = t0 if same_t else draw(t_st)
        fwd = mode == "fwd" or (mode == "mixed" and draw(bool_st))
        out.append(xf[i] + t * (xf[i + 1] - xf[i]) if fwd else xf[i] - t * (xf[i] - xf[i - 1]))
    out.append(xf[-1])
    out.sort()
    return out


@st.composite
def integer_points(draw, x, inside_only=False):
    """sorted integers around / inside the data range: a contiguous arange or a random selection."""
    lo = math.floor(float(x[0])) - (0 if inside_only else draw(st.integers(0, 3)))
    hi = math.ceil(float(x[-1])) + (0 if inside_only else draw(st.integers(0, 3)))
    if inside_only:
        lo, hi = math.ceil(float(x[0])), math.floor(float(x[-1]))
    if hi <= lo:
        return [float(lo)]
    if draw(st.booleans()):
        step = max(1, -(-(hi - lo) // draw(st.integers(2, 60))))
        pts = list(range(lo, hi + 1, step))
    else:
        pts = sorted(draw(st.lists(st.integers(lo, hi), min_size=1, max_size=40)))
    return [float(v) for v in pts]


GRID_PROFILES = ["inside", "subset", "mixed", "mixed", "beyond", "superset", "same", "shifted", "shifted", "intgrid",
                 "intgrid"]


@st.composite
def grid_container(draw, g):
    if all(_is_int(v) for v in g):
        return draw(st.sampled_from(["int", "int", "intlist", "array", "list"]))
    return draw(st.sampled_from(["array", "array", "list"]))


@st.composite
def grid_case(draw, ctx, method=None, affine=False, profiles=None, nonconstant=False):
    profile = draw(st.sampled_from(profiles or GRID_PROFILES))
    if profile in ("intgrid", "same-int"):
        case = draw(base(ctx, affine=affine, nonconstant=nonconstant,
                         xmode="intx" if profile == "same-int" else "intfriendly", ykinds=NON_INTEGER_Y_KINDS))
    else:
        case = draw(base(ctx, affine=affine, nonconstant=nonconstant, xmode="close" if profile == "shifted" else None))
    x = case["x"]
    if profile in ("same", "same-int"):
        g = [float(v) for v in x]
    elif profile == "superset":
        g = sorted([float(v) for v in x] + draw(points(x, "inside", 1, 30)))
    elif profile == "shifted":
        g = draw(shifted_points(x))
    elif profile == "intgrid":
        g = draw(integer_points(x))
    else:
        g = draw(points(x, profile))
    case.update(grid=g, profile=profile, gc=draw(grid_container(g)))
    if method is not None:
        case["method"] = method
    return case


# ---- helpers ------------------------------------------------------------------------------------------------------

def inputs(case):
    x, y = case["x"], case["y"]
    if case["xc"] == "list":
        xi = list(x)
    else:
        xi = np.array(x, dtype=np.int64 if case["xint"] else float)
    if case["yc"] == "list":
        yi = list(y)
    elif case["yc"] == "int":
        yi = np.array([int(v) for v in y], dtype=np.int64)
    else:
        yi = np.array(y, dtype=float)
    return xi, yi


def grid_input(case):
    gc = case.get("gc")
    if gc == "list":
        return list(case["grid"])
    if gc == "intlist":
        return [int(v) for v in case["grid"]]
    if gc == "int":
        return np.array([int(v) for v in case["grid"]], dtype=np.int64)
    return np.array(case["grid"], dtype=float)


def grid_classes(x, grid):
    cls = set()
    xs_ = set(float(v) for v in x)
    for q in grid:
        if q < x[0]:
            cls.add("grid:below")
        elif q > x[-1]:
            cls.add("grid:above")
        elif q in xs_:
            cls.add("grid:on-sample")
        else:
            cls.add("grid:inside")
            if math.nextafter(q, math.inf) in xs_ or math.nextafter(q, -math.inf) in xs_:
                cls.add("grid:ulp-beside-sample")
    if len(set(grid)) < len(grid):
        cls.add("grid:duplicates")
    if len(grid) == 1:
        cls.add("grid:single-point")
    nt = any(q not in xs_ for q in grid)
    return cls, nt


def common_classes(case):
    cls = {"x:" + case["xkind"], "y:" + case["ykind"], "xc:" + case["xc"], "yc:" + case["yc"]}
    if "profile" in case:
        cls.add("profile:" + case["profile"])
    if "gc" in case:
        cls.add("gc:" + case["gc"])
        if case["gc"] in ("int", "intlist") and not all(float(v).is_integer() for v in case["y"]):
            cls.add("int-grid & non-integer y")
    if case["xint"] and not all(float(v).is_integer() for v in case["y"]):
        cls.add("int-dtype x & non-integer y")
    if "grid" in case and len(case["grid"]) == len(case["x"]) and case["grid"] != [float(v) for v in case["x"]]:
        cls.add("grid:same-length-but-different")
    x = case["x"]
    d = [b - a for a, b in zip(x[:-1], x[1:])]
    cls.add("x-uniform" if max(d) - min(d) <= 1e-9 * max(d) else "x-non-uniform")
    return cls


def run_process(case, method, affine=None):
    xi, yi = inputs(case)
    g = grid_input(case)
    res = process.interpolate(xi, yi, g, method=method)
    res = check_array(res, len(case["grid"]), f"interpolate(method={method!r})")
    check_values(method, case["x"], case["y"], case["grid"], res, affine=affine)


# ---- sub-check bodies -------------------------------------------------------------------------------------------------

def at_samples_body(ctx, case):
    """every method, new grid = the samples themselves or a superset: sample values come back."""
    for method in METHODS:
        run_process(case, method)
    if case["profile"] == "same":
        # the default method is 'linear': interpolating at x itself is the identity
        xi, yi = inputs(case)
        res = check_array(process.interpolate(xi, yi, xi), len(case["x"]), "interpolate(default method)")
        if not np.array_equal(res, np.array(case["y"], dtype=float)):
            raise Violation("interpolate(x, y, x) with the default method does not return y")
    cls = common_classes(case)
    cls |= grid_classes(case["x"], case["grid"])[0]
    cls |= {"method:" + m for m in METHODS}
    ctx.record(case, cls, nontrivial=len(set(case["y"])) > 1)


def single_method_body(ctx, case):
    run_process(case, case["method"])
    cls = common_classes(case)
    gc, nt = grid_classes(case["x"], case["grid"])
    cls |= gc
    cls.add("method:" + case["method"])
    if case["method"] == "constant" and "grid:below" in gc and case["y"][0] not in (0.0, case["y"][-1]):
        cls.add("left-of-data-with-distinct-first-value")
    ctx.record(case, cls, nontrivial=nt)


def affine_body(ctx, case):
    aff = (case["p"], case["c"])
    for method in ("linear", "cubic", "spline"):
        run_process(case, method, affine=aff)
    cls = common_classes(case)
    gc, nt = grid_classes(case["x"], case["grid"])
    cls |= gc
    cls.add("slope-zero" if case["p"] == 0 else "slope-nonzero")
    cls |= {"method:" + m for m in ("linear", "cubic", "spline")}
    ctx.record(case, cls, nontrivial=nt and case["p"] != 0)


def weaver_state(w):
    st_ = {}
    for k, v in sorted(vars(w).items()):
        if isinstance(v, np.ndarray):
            st_[k] = ("nd", str(v.dtype), v.shape, v.tobytes())
        else:
            st_[k] = ("obj", repr(v))
    return st_


def get_pair(w, where):
    out = w.get()
    if not (isinstance(out, tuple) and len(out) == 2):
        raise Violation(f"{where}: get() did not return a pair")
    return out


def weaver_n_body(ctx, case):
    xi, yi = inputs(case)
    n, method = case["n"], case["method"]
    w = Weaver(xi, yi)
    ret = w.interpolate(n, method=method) if not case["n_kw"] else w.interpolate(n=n, method=method)
    if ret is not w:
        raise Violation("Weaver.interpolate did not return self")
    gx, gy = get_pair(w, "interpolate(n)")
    gx = check_array(gx, n, f"interpolate({n}): x")
    gy = check_array(gy, n, f"interpolate({n}): y")
    # numpy.linspace (start + arange*step, end point forced) is itself only equally spaced to rounding: a search over
    # 2e5 (start, stop, n) found steps 3.64 ulp(max|x|) off (start=-63.598953885392184, stop=59.998691563692546,
    # n=223) and the rounding analysis allows about 5.5, so DESIGN's 4 ulp would raise false alarms; 16 ulp is still
    # orders of magnitude below one step of every generated grid
    grid = check_n_grid(gx, n, case["x"][0], case["x"][-1], f"interpolate({n})")
    aff = (case["p"], case["c"]) if case["ykind"] == "affine" and method != "constant" else None
    check_values(method, case["x"], case["y"], grid, gy, affine=aff, where=f"Weaver.interpolate({n}): ")
    cls = common_classes(case)
    cls.add("method:" + method)
    m = len(case["x"])
    cls.add("n==2" if n == 2 else "n<len" if n < m else "n==len" if n == m else "n>len")
    if n == m and "x-non-uniform" in cls:
        cls.add("n==len on non-uniform x")
    if (n - 1) % (m - 1) == 0 and "x-uniform" in cls:
        cls.add("grid-contains-all-samples")
    ctx.record(case, cls, nontrivial=grid_classes(case["x"], grid)[1])


@st.composite
def weaver_n_case(draw, ctx):
    same_length = draw(st.integers(0, 2)) == 0
    case = draw(base(ctx, affine=draw(st.integers(0, 3)) == 0, xmode="close" if same_length else None))
    m = len(case["x"])
    if same_length:
        n = m          # as many points as samples: on non-uniform x the new grid is near, but not on, the samples
    else:
        n = draw(st.one_of(st.integers(3, 12), st.integers(13, 60), st.integers(61, ctx.pick(200, 600)),
                           st.sampled_from([2, 3, m, m - 1, m + 1, 2 * m - 1, 3 * m - 2])))
    case.update(n=n, method=draw(st.sampled_from(METHODS)), n_kw=draw(st.booleans()))
    return case


@st.composite
def weaver_grid_case(draw, ctx):
    inner_profile = draw(st.sampled_from(["inside", "subset", "mixed", "shifted", "shifted", "intgrid", "intgrid"]))
    affine = draw(st.integers(0, 3)) == 0
    if inner_profile == "intgrid":
        case = draw(base(ctx, affine=affine, xmode="intx", ykinds=NON_INTEGER_Y_KINDS))
    else:
        case = draw(base(ctx, affine=affine, xmode="close" if inner_profile == "shifted" else None))
    x = case["x"]
    x0, xe = float(x[0]), float(x[-1])
    if inner_profile == "shifted":
        g = draw(shifted_points(x))
    elif inner_profile == "intgrid":
        g = sorted([x0] + draw(integer_points(x, inside_only=True)) + [xe])
    else:
        g = sorted([x0] + draw(points(x, inner_profile, 0, 40, clip=True)) + [xe])
    case["profile"] = inner_profile
    # a grid handed to a Weaver becomes its abscissae, which must be strictly increasing: repeated points are removed
    # by construction (points one ulp apart stay); query grids of process.interpolate may keep their duplicates
    g = sorted(set(g))
    mode = draw(st.sampled_from(["equal", "equal", "equal", "first", "last", "both", "method", "method-unequal"]))
    method = draw(st.sampled_from(METHODS))
    span = xe - x0

    def moved(v, first):
        how = draw(st.sampled_from(["ulp-out", "ulp-in", "out", "in"]))
        sgn = -1.0 if first else 1.0
        if how == "ulp-out":
            return math.nextafter(v, sgn * math.inf)
        if how == "ulp-in":
            return math.nextafter(v, -sgn * math.inf)
        if how == "out":
            return v + sgn * draw(fl(0.01, 1.0)) * span
        return v - sgn * draw(fl(0.01, 0.4)) * span

    if mode in ("first", "both", "method-unequal"):
        g = [v for v in g if v != x0] or [xe]
        g = sorted([moved(x0, True)] + g)
    if mode in ("last", "both"):
        g = [v for v in g if v != xe] or [x0]
        g = sorted(g + [moved(xe, False)])
    g = sorted(set(g))
    if len(g) < 2:
        g = [g[0], g[0] + (span if span > 0 else 1.0)]
    if mode.startswith("method"):
        method = draw(st.sampled_from(BOGUS))
    case.update(grid=g, mode=mode, method=method, gc=draw(grid_container(g)),
                via=draw(st.sampled_from(["kw", "kw", "n-and-kw", "n-and-kw"])))
    # documented: "n: ... Ignored if new_x specified" - an n that differs from the length of the explicit grid
    case["ignored_n"] = draw(st.sampled_from([v for v in (2, 3, 9, len(x), 7) if v != len(g)]))
    return case


def weaver_grid_body(ctx, case):
    xi, yi = inputs(case)
    x, grid, method = case["x"], case["grid"], case["method"]
    g = grid_input(case)
    ends_differ = grid[0] != x[0] or grid[-1] != x[-1]
    unknown = method not in METHODS
    w = Weaver(xi, yi)
    before = weaver_state(w)
    kw = dict(new_x=g, method=method)
    if case["via"] == "n-and-kw":
        kw["n"] = case.get("ignored_n", 7)          # documented: n is ignored when new_x is given
    cls = common_classes(case)
    cls.add("method:" + (method if not unknown else "<unknown>"))
    if ends_differ or unknown:
        what = ("unknown method " + repr(method)) if not ends_differ else \
            f"grid [{grid[0]!r} .. {grid[-1]!r}] for data on [{x[0]!r} .. {x[-1]!r}]"
        try:
            w.interpolate(**kw)
        except ValueError:
            pass
        except Exception as e:
            raise Violation(f"Weaver.interpolate with {what} raised {type(e).__name__} instead of ValueError: {e}")
        else:
            raise Violation(f"Weaver.interpolate accepted {what}")
        after = weaver_state(w)
        if after != before:
            changed = [k for k in sorted(set(before) | set(after)) if before.get(k) != after.get(k)]
            raise Violation(f"refused Weaver.interpolate ({what}) changed the Weaver's {changed}")
        if unknown:
            # the function behind it refuses the name as well (it used to return None)
            try:
                res = process.interpolate(xi, yi, g, method=method)
            except ValueError:
                pass
            except Exception as e:
                raise Violation(f"process.interpolate(method={method!r}) raised {type(e).__name__}, not ValueError")
            else:
                raise Violation(f"process.interpolate(method={method!r}) returned {type(res).__name__} instead of "
                                f"raising ValueError")
        if ends_differ:
            cls.add("refused:first-end" if grid[-1] == x[-1] else "refused:last-end" if grid[0] == x[0]
                    else "refused:both-ends")
            d0 = abs(grid[0] - x[0])
            d1 = abs(grid[-1] - x[-1])
            if 0 < d0 <= 2 * np.spacing(abs(float(x[0]))) or 0 < d1 <= 2 * np.spacing(abs(float(x[-1]))):
                cls.add("refused:one-ulp-off")
        if unknown:
            cls.add("refused:unknown-method")
        ctx.record(case, cls, nontrivial=True)
        return
    ret = w.interpolate(**kw)
    if ret is not w:
        raise Violation("Weaver.interpolate did not return self")
    gx, gy = get_pair(w, "interpolate(new_x)")
    gx = np.asarray(gx)
    if gx.shape != (len(grid),) or not np.array_equal(gx, np.array(grid, dtype=float)):
        raise Violation("Weaver.interpolate(new_x=...) did not adopt the given grid as x",
                        detail=dict(got=gx.tolist() if gx.size < 100 else "long"))
    gy = check_array(gy, len(grid), "interpolate(new_x): y")
    aff = (case["p"], case["c"]) if case["ykind"] == "affine" and method != "constant" else None
    check_values(method, x, case["y"], grid, gy, affine=aff, where="Weaver.interpolate(new_x): ")
    gc, nt = grid_classes(x, grid)
    cls |= gc
    cls.add("accepted:equal-ends")
    cls.add("via:" + case["via"])
    if case["via"] == "n-and-kw":
        cls.add("new_x+ignored-n")
        cls.add("new_x+ignored-n: n == len(x)" if kw["n"] == len(x) else f"new_x+ignored-n: n == {kw['n']}")
    ctx.record(case, cls, nontrivial=nt)


# ---- histories through one Weaver -------------------------------------------------------------------------------------

def check_n_grid(gx, n, x0, xe, where):
    """exactly n points, first/last equal to x0/xe, steps equal to (xe - x0)/(n - 1) within STEP_ULPS ulp."""
    if gx[0] != x0 or gx[-1] != xe:
        raise Violation(f"{where}: new grid spans [{float(gx[0])!r}, {float(gx[-1])!r}], the data span "
                        f"[{x0!r}, {xe!r}]")
    grid = [float(v) for v in gx]
    h = (Fraction(xe) - Fraction(x0)) / (n - 1)
    tol = Fraction(STEP_ULPS * float(np.spacing(max(abs(float(x0)), abs(float(xe))))))
    for j in range(n - 1):
        step = Fraction(grid[j + 1]) - Fraction(grid[j])
        if abs(step - h) > tol:
            raise Violation(f"{where}: step {j} is {float(step)!r}, equal spacing needs {float(h)!r} "
                            f"(tolerance {STEP_ULPS} ulp = {float(tol):.3g})")
    return grid


def poly_trend(coef):
    return lambda t: coef[0] * t + coef[1] * t * t


def grid_from_spec(cx, spec, distinct=False):
    """new grid derived from the CURRENT abscissae (so it shares their end points whatever the history did):
    spec = list of [u, t]: the point lies t of the way through the cell floor(u*(m-1)); t = 0 is the sample.
    `distinct` removes repeated points (grids that become the abscissae of a Weaver must be strictly increasing)."""
    m = len(cx)
    pts = [cx[0], cx[-1]]
    for u, t in spec:
        i = min(int(u * (m - 1)), m - 2)
        pts.append(cx[i] + t * (cx[i + 1] - cx[i]) if t else cx[i])
    pts = sorted(min(max(v, cx[0]), cx[-1]) for v in pts)
    return sorted(set(pts)) if distinct else pts


def prep_grid(cx, how):
    """grid for a preparatory interpolate(new_x=...): strictly increasing, same end points, bounded gap ratio."""
    m = len(cx)
    if how[0] == "shift":                       # every interior sample moved forward by t of its gap
        t = how[1]
        return [cx[0]] + [cx[i] + t * (cx[i + 1] - cx[i]) for i in range(1, m - 1)] + [cx[-1]]
    if how[0] == "refine":                      # every cell split at its midpoint
        out = []
        for a, b in zip(cx[:-1], cx[1:]):
            out += [a, a + (b - a) / 2]
        return sorted(set(out + [cx[-1]]))
    k = how[1]                                   # thin: every k-th sample, both ends kept
    inner = [cx[i] for i in range(k, m - 1, k)]
    return [cx[0]] + inner + [cx[-1]]


def usable(cx):
    """strictly increasing, >= 5 samples, max/min gap ratio <= 1e2 (the range in which the spline tolerances hold)"""
    d = [b - a for a, b in zip(cx[:-1], cx[1:])]
    return len(cx) >= 5 and min(d) > 0 and max(d) <= 1e2 * min(d)


@st.composite
def weaver_history_case(draw, ctx):
    case = draw(base(ctx, nonconstant=True, m_lo=6))
    steps = []
    for _ in range(draw(st.integers(1, 5))):
        op = draw(st.sampled_from(["shift_y", "scale_y", "shift_x", "scale_x", "trend", "trend", "noise", "noise",
                                   "smooth", "smooth", "interpolate", "interpolate", "append_one_sample",
                                   "append_one_sample", "repeat", "truncate_by_index", "truncate_by_value",
                                   "normalize_x", "normalize_y", "restore_original"]))
        if op == "restore_original":
            step = dict(op=op)
        elif op == "append_one_sample":
            step = dict(op=op, periodic=draw(st.sampled_from([True, True, False])))
        elif op == "repeat":
            step = dict(op=op, arg=draw(st.sampled_from([1, 2, 2])))
        elif op in ("truncate_by_index", "truncate_by_value"):
            step = dict(op=op, u=draw(st.one_of(st.just(0.0), fl(0.0, 0.3))), v=draw(st.one_of(st.just(0.0), fl(0.0, 0.3))))
        elif op in ("normalize_x", "normalize_y"):
            step = dict(op=op, arg=draw(st.sampled_from(NORM_RANGES)))
        elif op == "shift_y":
            step = dict(op=op, arg=draw(st.one_of(st.sampled_from([1.0, -2.5, 10.0]), fl(-100.0, 100.0))))
        elif op == "scale_y":
            step = dict(op=op, arg=draw(st.sampled_from([2.0, 0.5, -1.0, 3.0, -0.25, 10.0])))
        elif op == "shift_x":
            step = dict(op=op, arg=draw(st.one_of(st.integers(-64, 64).map(lambda k: k / 8.0),
                                                  st.integers(-1000, 1000).map(float))))
        elif op == "scale_x":
            step = dict(op=op, arg=draw(st.sampled_from([2.0, 0.5, 4.0, 0.25])))
        elif op == "trend":
            step = dict(op=op, arg=[draw(fl(-5.0, 5.0)), draw(st.one_of(st.just(0.0), fl(-5.0, 5.0)))], normalized=True)
        elif op == "noise":
            step = dict(op=op, arg=draw(fl(0.0, 40.0)), seed=draw(st.integers(0, 2 ** 31 - 1)))
        elif op == "smooth":
            step = dict(op=op, arg=draw(st.sampled_from([0.01, 0.1, 1.0, 10.0, 100.0])))
        else:
            how = draw(st.one_of(st.tuples(st.just("n"), st.integers(6, 60)),
                                 st.tuples(st.just("shift"), fl(0.2, 0.8)),
                                 st.tuples(st.just("refine")),
                                 st.tuples(st.just("thin"), st.integers(2, 3))))
            step = dict(op=op, how=list(how), method=draw(st.sampled_from(METHODS)))
        steps.append(step)
    case["steps"] = steps
    if draw(st.sampled_from(["n", "grid", "n", "grid"])) == "n":
        case["final"] = dict(n=draw(st.one_of(st.integers(2, 12), st.integers(13, 120))))
    else:
        spec = draw(st.lists(st.tuples(fl(0.0, 1.0), st.one_of(st.just(0.0), fl(0.0, 1.0))), min_size=0, max_size=25))
        case["final"] = dict(spec=[list(v) for v in spec])
        if draw(st.sampled_from([False, True])):
            # an n passed together with the explicit grid must be ignored ("len" = the current number of samples)
            case["final"]["ignored_n"] = draw(st.sampled_from([2, 3, 9, "len"]))
    case["gc"] = draw(st.sampled_from(["array", "array", "list"]))
    return case


NORM_RANGES = [[0.0, 1.0], [-1.0, 1.0], [10.0, 20.0], [0.0, 100.0], [-5.0, -1.0]]


def strictly_increasing(v):
    return all(b > a for a, b in zip(v[:-1], v[1:]))


def apply_domain_step(w, step, limit=400):
    """Applies shift / scale / normalise / truncate / repeat / append / restore steps when their documented
    preconditions hold for the CURRENT series (decided on float copies, so it depends on the case only); returns
    'done', or 'skipped' when the step would leave fewer than 5 samples, merge abscissae, divide by a zero range or
    grow the series beyond `limit` samples."""
    op = step["op"]
    cx = [float(v) for v in w.get()[0]]
    m = len(cx)
    if op == "shift_x":
        if not strictly_increasing([v + step["arg"] for v in cx]):
            return "skipped"
        w.shift_x(step["arg"])
    elif op == "scale_x":
        if not strictly_increasing([v * step["arg"] for v in cx]):
            return "skipped"
        w.scale_x(step["arg"])
    elif op == "normalize_x":
        lo, hi = step["arg"]
        if not strictly_increasing([(v - cx[0]) / (cx[-1] - cx[0]) * (hi - lo) + lo for v in cx]):
            return "skipped"
        w.normalize_x(lo, hi)
    elif op == "normalize_y":
        cy = [float(v) for v in w.get()[1]]
        if not max(cy) > min(cy):
            return "skipped"
        w.normalize_y(step["arg"][0], step["arg"][1])
    elif op == "restore_original":
        w.restore_original()
    elif op == "append_one_sample":
        w.append_one_sample(make_periodic=step["periodic"])
    elif op == "repeat":
        if m * step["arg"] > limit:
            return "skipped"
        w.repeat(step["arg"])
    elif op == "truncate_by_index":
        start, stop = int(step["u"] * m), m - int(step["v"] * m)
        # (after a reshaping step the reference has another length and is cut with the same indices: not asserted)
        if stop - start < 5 or len(w.get_reference()[0]) != m:
            return "skipped"
        w.truncate_by_index(start, stop)
    elif op == "truncate_by_value":
        left = step["u"] * (cx[-1] - cx[0]) + cx[0]
        right = (1.0 - step["v"]) * (cx[-1] - cx[0]) + cx[0]
        li = max([i for i, v in enumerate(cx) if v <= left], default=0)
        ri = min([i for i, v in enumerate(cx) if v >= right], default=m - 1)
        if ri - li + 1 < 5 or not left < right:
            return "skipped"
        w.truncate_by_value(step["u"], 1.0 - step["v"], x_left_as_ratio=True, x_right_as_ratio=True)
    elif op == "shift_y":
        w.shift_y(step["arg"])
    elif op == "scale_y":
        w.scale_y(step["arg"])
    else:
        raise KeyError(op)
    return "done"


def apply_step(w, step):
    op = step["op"]
    if op == "trend":
        w.trend(poly_trend(step["arg"]), normalized=step["normalized"])
    elif op == "noise":
        np.random.seed(step["seed"])
        w.noise(step["arg"])
    elif op == "interpolate":
        how = step["how"]
        if how[0] == "n":
            w.interpolate(how[1], method=step["method"])
        else:
            cur = [float(v) for v in w.get()[0]]
            w.interpolate(new_x=np.array(prep_grid(cur, how)), method=step["method"])
    elif op == "smooth":
        w.smooth(step["arg"])
    else:
        return apply_domain_step(w, step)
    return "done"


def pair_state(pair):
    return tuple((str(np.asarray(a).dtype), np.asarray(a).shape, np.asarray(a).tobytes()) for a in pair)


def run_history(case):
    """a new Weaver taken through the preparatory steps (deterministic: the noise steps are seeded);
    returns (weaver, names of the steps applied, status)"""
    xi, yi = inputs(case)
    w = Weaver(xi, yi)
    done = []
    with warnings.catch_warnings(record=True) as log:
        warnings.simplefilter("always")
        for step in case["steps"]:
            cur = [float(v) for v in w.get()[0]]
            if step["op"] in ("smooth", "interpolate") and not usable(cur):
                return w, done, "history-left-the-conditioned-range"
            if apply_step(w, step) == "skipped":
                continue
            done.append(step["op"] if step["op"] != "append_one_sample" or not step["periodic"]
                        else "append_one_sample(periodic)")
    if any(issubclass(r.category, (RuntimeWarning, UserWarning)) for r in log):
        return w, done, "discarded_fitpack"
    return w, done, "ok"


def weaver_history_body(ctx, case):
    w, done, status = run_history(case)
    if status != "ok":
        ctx.count(status)
        return
    pair = get_pair(w, "history")
    cx = [float(v) for v in pair[0]]
    cy = [float(v) for v in pair[1]]
    if len(cx) != len(cy) or not usable(cx) or not all(math.isfinite(v) for v in cy):
        ctx.count("history-left-the-conditioned-range")
        return
    hist = " > ".join(done)
    final = case["final"]
    for method in METHODS:
        # the same history replayed on a new object for every method (no copying of a Weaver: state that a step
        # plants on the instance must stay attached to the instance it was planted on)
        v = run_history(case)[0]
        if pair_state(v.get()) != pair_state(pair):
            raise Violation(f"the history {hist} is not reproducible: replaying it on a new Weaver gives another series")
        ref0, orig0 = pair_state(v.get_reference()), pair_state(v.get_original())
        if "n" in final:
            n = final["n"]
            where = f"after {hist}: interpolate({n}, {method!r})"
            ret = v.interpolate(n, method=method)
            gx, gy = get_pair(v, where)
            gx = check_array(gx, n, where + ": x")
            gy = check_array(gy, n, where + ": y")
            grid = check_n_grid(gx, n, cx[0], cx[-1], where)
        else:
            grid = grid_from_spec(cx, final["spec"], distinct=True)
            where = f"after {hist}: interpolate(new_x, {method!r})"
            extra = {}
            if "ignored_n" in final:
                n_ign = len(cx) if final["ignored_n"] == "len" else final["ignored_n"]
                if n_ign == len(grid):
                    n_ign += 1
                extra["n"] = n_ign
                where = f"after {hist}: interpolate(n={n_ign}, new_x, {method!r})"
            ret = v.interpolate(new_x=list(grid) if case["gc"] == "list" else np.array(grid), method=method, **extra)
            gx, gy = get_pair(v, where)
            gx = np.asarray(gx)
            if gx.shape != (len(grid),) or not np.array_equal(gx, np.array(grid)):
                raise Violation(f"{where} did not adopt the given grid as x")
            gy = check_array(gy, len(grid), where + ": y")
        if ret is not v:
            raise Violation(f"{where} did not return self")
        # the oracles of the fresh-Weaver sub-checks, applied to the CURRENT series (cx, cy)
        check_values(method, cx, cy, grid, gy, where=where + ": ")
        if pair_state(v.get_reference()) != ref0:
            raise Violation(f"{where} changed the reference series")
        if pair_state(v.get_original()) != orig0:
            raise Violation(f"{where} changed the original series")
    cls = common_classes(case)
    cls |= {"op:" + o for o in done}
    cls |= {"prep-interpolate:" + s_["how"][0] for s_ in case["steps"] if s_["op"] == "interpolate"}
    cls.add("final:n" if "n" in final else "final:new_x")
    if "ignored_n" in final:
        cls.add("new_x+ignored-n")
    cls.add(f"steps:{len(done)}")
    rx, ry = (np.asarray(a, dtype=float) for a in w.get_reference())
    diverged = rx.shape != (len(cx),) or not (np.array_equal(rx, cx) and np.array_equal(ry, cy))
    cls.add("working != reference" if diverged else "working == reference")
    ox, oy = (np.asarray(a, dtype=float) for a in w.get_original())
    cls.add("working != original" if ox.shape != (len(cx),) or not (np.array_equal(ox, cx) and np.array_equal(oy, cy))
            else "working == original")
    ctx.record(case, cls, nontrivial=diverged)


# ---- histories at process level: the same array objects passed again after in-place edits ---------------------------

@st.composite
def process_history_case(draw, ctx):
    case = draw(base(ctx, nonconstant=True, m_lo=5))
    m = len(case["x"])
    case.update(xc="array", yc="array", xint=False, x=[float(v) for v in case["x"]])
    case["y2"] = draw(ys(m, nonconstant=True))["y"]
    case["x2map"] = draw(st.sampled_from([[1.0, 0.0], [2.0, 1.0], [0.5, -3.0], [1.0, 0.125]]))
    m0 = draw(st.sampled_from(METHODS))
    case["method"] = m0
    steps = []
    for i in range(draw(st.integers(3, 9))):
        kind = draw(st.sampled_from(["call", "call", "call", "edit_y", "edit_y", "edit_y", "edit_x", "edit_grid"]))
        if i == 0:
            kind = "call"
        pair = draw(st.sampled_from([0, 0, 0, 1]))
        if kind == "call":
            g = draw(st.sampled_from(["x-object", "x-copy", "spec", "spec", "reuse", "reuse", "beyond"]))
            step = dict(op="call", pair=pair, grid=g, method=m0 if draw(st.integers(0, 3)) else draw(st.sampled_from(METHODS)))
            if g in ("spec", "beyond"):
                step["spec"] = [list(v) for v in draw(st.lists(st.tuples(fl(0.0, 1.0), st.one_of(st.just(0.0), fl(0.0, 1.0))),
                                                              min_size=0, max_size=20))]
        elif kind == "edit_y":
            how = draw(st.one_of(st.tuples(st.just("elem"), fl(0.0, 1.0), st.one_of(st.just(4.5), fl(-100.0, 100.0))),
                                 st.tuples(st.just("affine"), st.sampled_from([2.0, -1.0, 0.5, 3.0, 0.0]),
                                           st.one_of(st.just(1.0), fl(-50.0, 50.0))),
                                 st.tuples(st.just("scale"), st.sampled_from([2.0, -1.0, 0.5]), fl(-10.0, 10.0)),
                                 st.tuples(st.just("reverse")),
                                 st.tuples(st.just("sin"), fl(0.1, 10.0), fl(0.1, 2.0))))
            step = dict(op="edit_y", pair=pair, how=list(how))
        elif kind == "edit_x":
            how = draw(st.one_of(st.tuples(st.just("affine"), st.sampled_from([2.0, 0.5, 1.0, 4.0]),
                                           st.one_of(st.integers(-64, 64).map(lambda k: k / 8.0), st.just(0.0))),
                                 st.tuples(st.just("move"), fl(0.0, 1.0), fl(0.3, 0.7))))
            step = dict(op="edit_x", pair=pair, how=list(how))
        else:
            step = dict(op="edit_grid", t=draw(st.sampled_from([-1.0, 1.0])) * draw(fl(0.05, 0.45)))
        steps.append(step)
    steps.append(dict(op="call", pair=0, grid=draw(st.sampled_from(["x-object", "reuse", "spec"])), method=m0,
                      spec=[[0.5, 0.5], [0.25, 0.0]]))
    # the pattern that exposes anything memoised on the identity of the arguments: the same x, y and grid objects
    # passed twice with the same method and exactly one in-place edit (of x, of the grid or of y) in between
    for _ in range(draw(st.integers(1, 2))):
        spec = [list(v) for v in draw(st.lists(st.tuples(fl(0.0, 1.0), st.sampled_from([0.0, 0.0, 0.25, 0.5, 0.9])),
                                               min_size=3, max_size=12))]
        steps.append(dict(op="call", pair=0, grid="spec", method=m0, spec=spec))
        edit = draw(st.sampled_from(["x-affine", "x-move", "grid", "grid", "y"]))
        if edit == "x-affine":
            steps.append(dict(op="edit_x", pair=0, how=["affine", draw(st.sampled_from([2.0, 0.5, 1.0])),
                                                        draw(st.sampled_from([0.125, -1.0, 3.0]))]))
        elif edit == "x-move":
            steps.append(dict(op="edit_x", pair=0, how=["move", draw(fl(0.0, 1.0)), draw(st.sampled_from([0.3, 0.7]))]))
        elif edit == "grid":
            steps.append(dict(op="edit_grid", t=draw(st.sampled_from([-0.45, -0.3, 0.3, 0.45]))))
        else:
            steps.append(dict(op="edit_y", pair=0, how=["elem", draw(fl(0.0, 1.0)), 4.5]))
        steps.append(dict(op="call", pair=0, grid="reuse", method=m0))
    case["steps"] = steps
    return case


def process_history_body(ctx, case):
    x0 = np.array(case["x"], dtype=float)
    a, b = case["x2map"]
    pairs = [[x0, np.array(case["y"], dtype=float)], [a * x0 + b, np.array(case["y2"], dtype=float)]]
    affine = [None, None]           # (p, c) while y of the pair is exactly p*x + c of its current x
    last_grid = None
    ncalls = 0
    cls = common_classes(case)
    edits_since_call = [set(), set()]
    edits_since_grid = set()        # in-place edits since the current grid object was last passed
    for step in case["steps"]:
        op = step["op"]
        if op == "edit_grid":
            if last_grid is not None and len(last_grid) > 0:
                x, _ = pairs[0]
                last_grid += step["t"] * float(np.min(np.diff(x)))        # in place, order preserved
                cls.add("edit:grid-in-place")
                edits_since_grid.add("grid")
            continue
        x, y = pairs[step["pair"]]
        m = len(x)
        if op == "edit_y":
            how = step["how"]
            if how[0] == "elem":
                y[min(int(how[1] * m), m - 1)] = how[2]
            elif how[0] == "affine":
                y[:] = how[1] * x + how[2]
            elif how[0] == "scale":
                y[:] = how[1] * y + how[2]
            elif how[0] == "reverse":
                y[:] = y[::-1].copy()
            else:
                y[:] = how[1] * np.sin(how[2] * np.arange(m))
            affine[step["pair"]] = (how[1], how[2]) if how[0] == "affine" else None
            edits_since_call[step["pair"]].add("y:" + how[0])
            continue
        if op == "edit_x":
            how = step["how"]
            if how[0] == "affine":
                x[:] = how[1] * x + how[2]
            else:
                i = 1 + min(int(how[1] * (m - 2)), m - 3)
                x[i] = x[i - 1] + how[2] * (x[i + 1] - x[i - 1])
            affine[step["pair"]] = None
            edits_since_call[step["pair"]].add("x:" + how[0])
            if step["pair"] == 0:
                edits_since_grid.add("x")
            continue
        # ---- a call: judged against the CURRENT contents of the very objects that are passed
        cx, cy = [float(v) for v in x], [float(v) for v in y]
        if not usable(cx):
            ctx.count("history-left-the-conditioned-range")
            return
        g = step["grid"]
        if g == "x-object":
            grid_obj = x
        elif g == "reuse" and last_grid is not None:
            grid_obj = last_grid
        elif g in ("spec", "beyond"):
            pts = grid_from_spec(cx, step["spec"])
            if g == "beyond":
                span = cx[-1] - cx[0]
                pts = [cx[0] - 0.5 * span, cx[0] - 0.01 * span] + pts + [cx[-1] + 0.01 * span, cx[-1] + span]
            grid_obj = np.array(pts, dtype=float)
        else:
            grid_obj = x.copy()
        grid = [float(v) for v in grid_obj]
        method = step["method"]
        where = f"call {ncalls + 1} ({method!r}, pair {step['pair']}, grid {g}" + \
                (f", after in-place edits {sorted(edits_since_call[step['pair']])}" if edits_since_call[step["pair"]]
                 else "") + "): "
        res = check_array(process.interpolate(x, y, grid_obj, method=method), len(grid), where + "interpolate")
        aff = affine[step["pair"]] if method != "constant" else None
        check_values(method, cx, cy, grid, res, affine=aff, where=where)
        if edits_since_call[step["pair"]] and ncalls:
            cls |= {"call-after-edit:" + e for e in edits_since_call[step["pair"]]}
            cls.add("same objects passed again after an in-place edit")
        if aff is not None:
            cls.add("affine-overwrite judged")
        cls.add("method:" + method)
        cls.add("grid:" + (g if not (g == "reuse" and last_grid is None) else "x-copy"))
        if g == "reuse" and last_grid is not None and ncalls and edits_since_grid:
            cls.add("same x and grid objects again after in-place edit of " + "/".join(sorted(edits_since_grid)))
        if step["pair"] == 1:
            cls.add("second pair of equal shape")
        edits_since_call[step["pair"]] = set()
        if grid_obj is not x:
            edits_since_grid = set()
            last_grid = grid_obj
        ncalls += 1
    cls.add(f"calls:{min(ncalls, 4)}{'+' if ncalls >= 4 else ''}")
    ctx.record(case, cls, nontrivial="same objects passed again after an in-place edit" in cls)


# ---- explicit keyword arguments must not outlive the call they were given to ----------------------------------------

KWARGS = dict(
    spline=[dict(s=0.5), dict(s=50.0), dict(s=200.0), dict(k=1), dict(k=2), dict(s=50.0, k=2)],
    cubic=[dict(bc_type="natural"), dict(bc_type="clamped")],
    linear=[dict(left=-7.5), dict(right=3.25), dict(left=0.0, right=1e6)],
    constant=[dict(left=-7.5), dict(left=1e6)],          # _piecewise_constant_interpolate takes `left` only
)


@st.composite
def kwargs_history_case(draw, ctx):
    """call(s) with explicit, valid keyword arguments, each followed by default calls of the same method (on the same
    or another series, through the function or through a Weaver) that are judged by the ordinary oracles"""
    first = draw(grid_case(ctx, profiles=["same", "superset", "mixed", "inside", "beyond"], nonconstant=True))
    second = draw(grid_case(ctx, affine=draw(st.sampled_from([True, True, False])),
                            profiles=["same", "superset", "mixed", "inside"], nonconstant=True))
    method = draw(st.sampled_from(["spline", "spline", "cubic", "cubic", "linear", "constant"]))
    calls = []
    for _ in range(draw(st.integers(1, 2))):
        calls.append(dict(kwargs=draw(st.sampled_from(KWARGS[method])), level=draw(st.sampled_from(["process", "weaver"])),
                          on=draw(st.sampled_from(["first", "second"]))))
        for _ in range(draw(st.integers(1, 2))):
            calls.append(dict(kwargs=None, level=draw(st.sampled_from(["process", "weaver"])),
                              on=draw(st.sampled_from(["first", "second", "second"]))))
    return dict(first=first, second=second, method=method, calls=calls, xkind=first["xkind"], ykind=second["ykind"])


def kwargs_history_body(ctx, case):
    method = case["method"]
    cls = {"method:" + method, "x:" + case["first"]["xkind"], "y2:" + case["second"]["ykind"]}
    seen_kwargs = False
    for k, call in enumerate(case["calls"]):
        series = case[call["on"]]
        xi, yi = inputs(series)
        kwargs = call["kwargs"]
        if call["level"] == "weaver":
            # Weaver.interpolate wants a grid with the end points of x: the samples themselves plus the points of
            # the generated grid that lie inside the range
            xs_ = [float(v) for v in series["x"]]
            grid = sorted(set(xs_) | {q for q in series["grid"] if xs_[0] <= q <= xs_[-1]})
            w = Weaver(xi, yi)
            w.interpolate(new_x=np.array(grid), method=method, **(kwargs or {}))
            res = get_pair(w, "kwargs history")[1]
        else:
            grid = series["grid"]
            res = process.interpolate(xi, yi, grid_input(series), method=method, **(kwargs or {}))
        where = f"call {k + 1} ({method!r}, {call['level']} level, {'kwargs ' + repr(kwargs) if kwargs else 'default'}" \
                + (", after an earlier call with explicit keywords" if seen_kwargs and not kwargs else "") + "): "
        res = check_array(res, len(grid), where + "result")
        if kwargs:
            # nothing is stated about explicit scipy / numpy keywords beyond a well-formed result
            if not np.all(np.isfinite(np.asarray(res, dtype=float))):
                raise Violation(where + "non-finite values")
            seen_kwargs = True
            cls.add("kwargs:" + "+".join(sorted(kwargs)))
            cls.add("kwargs-call:" + call["level"])
            continue
        aff = (series["p"], series["c"]) if series["ykind"] == "affine" and method != "constant" else None
        check_values(method, series["x"], series["y"], grid, res, affine=aff, where=where)
        if seen_kwargs:
            cls.add("default call after kwargs:" + call["level"])
            cls.add("default call after kwargs on " + ("the same" if call["on"] == "first" else "another") + " series")
            if aff is not None:
                cls.add("default call after kwargs on affine data")
    ctx.record(case, cls, nontrivial=True)


_FIRST_VERDICT = {}


def sticky(body):
    """Faults that keep state between calls (a memo inside the library keyed on object identity or on a fingerprint
    of the arguments, a cache on the instance) make the verdict for one and the same case depend on what ran before
    it in the process.  A violation that was observed is real; it is remembered per process and reported again when
    Hypothesis re-executes the identical case, from one raise site (Hypothesis identifies a failure by type, line
    and context and would otherwise abort with 'flaky' instead of reporting it).  Passing runs are never remembered;
    ./check C13 --replay in a new process evaluates the case afresh."""
    def wrapped(ctx, case):
        key = (body.__name__, digest(case))
        verdict = _FIRST_VERDICT.get(key)
        if verdict is None:
            try:
                body(ctx, case)
            except Violation as v:
                verdict = _FIRST_VERDICT[key] = (v.msg, v.detail)
        if verdict is not None:
            raise Violation(verdict[0], detail=verdict[1])
    wrapped.__name__ = body.__name__
    return wrapped


SUBCHECKS = [
    Sub("at_samples", "hyp", sticky(at_samples_body), quick=300, thorough=6000,
        strategy=lambda ctx: grid_case(ctx, profiles=["same", "same", "superset", "subset", "same-int", "same-int"]),
        clause="every method returns the sample values at the original abscissae (linear/constant exactly, "
               "cubic/spline to 1e-9)"),
    Sub("constant", "hyp", sticky(single_method_body), quick=300, thorough=6000,
        strategy=lambda ctx: grid_case(ctx, method="constant", nonconstant=True),
        clause="'constant': value of the last sample at or before each new point, first value left of the data"),
    Sub("linear", "hyp", sticky(single_method_body), quick=300, thorough=6000,
        strategy=lambda ctx: grid_case(ctx, method="linear", nonconstant=True),
        clause="'linear': straight-line value between the two neighbouring samples, exact on the samples"),
    Sub("affine", "hyp", sticky(affine_body), quick=300, thorough=6000,
        strategy=lambda ctx: grid_case(ctx, affine=True),
        clause="linear, cubic and spline reproduce affine data inside the range"),
    Sub("weaver_n", "hyp", sticky(weaver_n_body), strategy=weaver_n_case, quick=300, thorough=6000,
        clause="Weaver.interpolate(n): exactly n equally spaced points spanning the same range, values per method"),
    Sub("process_history", "hyp", sticky(process_history_body), strategy=process_history_case, quick=200, thorough=4000,
        clause="process.interpolate called repeatedly with the SAME x / y / grid array objects, edited in place in "
               "between (one element, whole array, affine overwrite, x moved keeping it increasing) and alternating "
               "with a second pair of equal shape: every call obeys all oracles for the current contents"),
    Sub("kwargs_history", "hyp", sticky(kwargs_history_body), strategy=kwargs_history_case, quick=150, thorough=2500,
        clause="explicit scipy / numpy keywords given to one call (spline s / k, cubic bc_type, linear left / right, "
               "constant left; through the function or Weaver.interpolate) do not outlive it: the following default "
               "calls of that method obey all oracles"),
    Sub("weaver_history", "hyp", sticky(weaver_history_body), strategy=weaver_history_case, quick=200, thorough=4000,
        clause="after 1..4 preparatory steps on one Weaver, interpolate (n or new_x, every method) acts on the CURRENT "
               "working series: all oracles above applied to copies of get(); reference and original untouched"),
    Sub("weaver_grid", "hyp", sticky(weaver_grid_body), strategy=weaver_grid_case, quick=300, thorough=6000,
        clause="Weaver.interpolate(new_x): grid adopted when both end points agree, otherwise (and for an unknown "
               "method) ValueError with the Weaver unchanged"),
]
