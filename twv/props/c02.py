"""C02 - recreate + match preserves every original average (averaging round trip)."""
import math

import numpy as np
from hypothesis import strategies as st

from twv import gens, rfagen, oracles
from twv.runner import Sub, Violation
from twv.props.c01 import interval_report

from traffic_weaver import Weaver
import traffic_weaver.process as process

PROPERTY = "C02"
LEVEL = "exploration"
RULE = ("Hypothesis draws a series of 2..60 points (six spacing kinds), one of the six strategies with parameters "
        "in the documented ranges, n in 2..64, a target rule, and whether append_one_sample(make_periodic) runs "
        "first; the public pipeline Weaver(x,y)[.append_one_sample].recreate_from_average(...).integral_match(...) "
        "is run and every original interval's mean is recomputed. Plus a deterministic sweep: 19 bundled datasets "
        "x 6 strategies x n in {2,10,24} (thorough also {3,7,64}) x both rules; dynamic_range: values of order one with "
        "1..3 bursts 1e7..1e13 times larger, each interval judged on its own scale only. Non-trivial = the recreated series "
        "is not already matched (some interval needs a correction > 1e-6 of its scale); distinct = distinct input.")
ASSUMPTIONS = ["default reference rule (rectangle) and default fixed-point search (closest), as in the documented "
               "pipeline", "tolerance as in C01 (1e-9 local + 1e-12 global + end-weight rounding leak), block means "
               "additionally allowed the non-uniformity of the oversampled sub-steps (16*eps*max|x|/substep)"]
TECHNIQUE = "round-trip property with Hypothesis-generated series/strategy/parameters through the public Weaver API, " \
            "plus an enumerated sweep over the bundled datasets"
LEVEL_TEXT = ("Round trip through the public API only: recreate, match, then re-average with an independent "
              "integral/mean computation; randomized over strategy x parameters x n x spacing and enumerated over "
              "the shipped data.")
LEVEL_NOTE = "trusts twv/oracles.py rule integrals; shares the tolerance model of C01"

EPS = 2.0 ** -52
SANDVINE = ["audio", "cloud", "file_sharing", "fixed_social_media", "gaming", "marketplace", "measurements",
            "messaging", "mobile_messaging", "mobile_social_media", "mobile_video", "mobile_youtube", "mobile_zoom",
            "snapchat", "social_networking", "tiktok", "video_streaming", "vpn_and_security", "web"]


@st.composite
def pipeline_case(draw, ctx):
    case = draw(rfagen.rfa_case(ctx, m_lo=2, n_hi=64))
    case["rule"] = draw(st.sampled_from(["trapezoid", "rectangle"]))
    case["append"] = draw(st.sampled_from([None, None, False, True]))
    return case


@st.composite
def long_case(draw, ctx):
    """the upper end of the claimed ranges: 33..60 points x n in 40..64 (recreated series of 1300..3800 samples)"""
    case = draw(rfagen.rfa_case(ctx, m_lo=33, m_hi=60, n_hi=64, xkinds=["unit", "fstep", "hours", "motif", "epoch"],
                                ykinds=["int", "dyadic", "ties", "sign"]))
    case["n"] = draw(st.integers(40, 64))
    case["kw"] = {k: v for k, v in case["kw"].items() if k != "a"}
    case["rule"] = draw(st.sampled_from(["trapezoid", "rectangle"]))
    case["append"] = draw(st.sampled_from([None, True, False]))
    return case


@st.composite
def dynamic_case(draw, ctx):
    """large dynamic range: averages of order one next to bursts 1e7..1e13 times larger.  Every interval is judged
    on its own scale only (no share of the largest interval's magnitude): the matching works interval by interval,
    so a burst somewhere in the series is no excuse for an error in a quiet interval far from it."""
    case = draw(rfagen.rfa_case(ctx, m_lo=5, m_hi=ctx.pick(24, 40), n_hi=24, ykinds=["burst"],
                                xkinds=["unit", "fstep", "motif", "hours", "dyadic"]))
    case["rule"] = draw(st.sampled_from(["trapezoid", "rectangle"]))
    case["append"] = draw(st.sampled_from([None, None, False, True]))
    case["gtol"] = 0.0
    return case


def run_pipeline(x, y, case):
    w = Weaver(x, y)
    if case.get("append") is not None:
        w.append_one_sample(make_periodic=case["append"])
    ox, oy = (np.array(v, dtype=float) for v in w.get())
    if len(ox) != len(case_x(case)) + (1 if case.get("append") is not None else 0):
        raise Violation("append_one_sample did not add exactly one sample")
    w.recreate_from_average(case["n"], rfa_class=rfagen.strategy_class(case["strategy"]), **case["kw"])
    px, py = rfagen.check_pair(w.get(), (len(ox) - 1) * case["n"] + 1, "recreate_from_average().get()")
    px, py = px.copy(), py.copy()
    w.integral_match(target_function_integral_method=case["rule"])
    zx, zy = rfagen.check_pair(w.get(), len(px), "integral_match().get()")
    return ox, oy, px, py, zx, zy


def case_x(case):
    return case["x"]


def judge(ctx, case, ox, oy, px, py, zx, zy, cls):
    n = case["n"]
    m = len(ox)
    if not np.array_equal(zx, px):
        raise Violation("integral_match changed the abscissae")
    mcase = dict(x=[float(v) for v in px], y=[float(v) for v in py], x_ref=[float(v) for v in ox],
                 y_ref=[float(v) for v in oy], tr=case["rule"], rr="rectangle", alpha=None)
    F = [k * n for k in range(m)]
    R = list(range(m))
    rows = interval_report(mcase, zy, F, R, gtol=case.get("gtol", 1e-12))
    nontrivial = False
    gscale = float(np.max(np.abs(oy)) + np.max(np.abs(zy))) + 1e-300
    for k, (got, want, tol, pre, scale) in enumerate(rows):
        dx = float(ox[k + 1] - ox[k])
        if abs(got - want) > tol:
            raise Violation(f"interval {k}: {case['rule']} mean of the result {got / dx!r} != original average "
                            f"{float(oy[k])!r} (integral {got!r} vs {want!r}, tol {tol:.3g})",
                            detail=dict(strategy=case["strategy"], kw=case["kw"], n=n))
        if abs(want - float(oy[k]) * dx) > 1e-12 * abs(want) + 1e-300:
            raise Violation("harness: reference integral is not y_k * dx")   # pragma: no cover
        if abs(pre - want) > 1e-6 * scale:
            nontrivial = True
    if case["rule"] == "rectangle" and case.get("gtol") is None:
        ax, ay = process.average(zx, zy, n)
        if not (isinstance(ax, np.ndarray) and isinstance(ay, np.ndarray) and len(ax) == m and len(ay) == m):
            raise Violation(f"average(result, n) returned {len(ax)} / {len(ay)} blocks, expected {m}")
        if not np.array_equal(ax, ox):
            raise Violation("averaging the result over blocks of n samples does not return the original abscissae "
                            "bit for bit")
        sub = float(np.min(np.diff(ox))) / n
        cond = float(np.max(np.abs(ox))) / sub
        tol = (1e-9 + 16 * EPS * cond) * gscale
        for k in range(m - 1):
            leak = rows[k][2] / float(ox[k + 1] - ox[k])
            if abs(float(ay[k]) - float(oy[k])) > tol + leak:
                raise Violation(f"block {k}: average of the result {float(ay[k])!r} != original average "
                                f"{float(oy[k])!r} (tol {tol + leak:.3g})",
                                detail=dict(strategy=case["strategy"], kw=case["kw"], n=n))
    ctx.record(case, cls, nontrivial)


def pipeline_body(ctx, case):
    x, y = rfagen.inputs(case)
    ox, oy, px, py, zx, zy = run_pipeline(x, y, case)
    cls = rfagen.classes(case) + ["rule:" + case["rule"], "append:" + str(case["append"])]
    judge(ctx, case, ox, oy, px, py, zx, zy, cls)


def dataset_cases(ctx, shard, nshards):
    ns = ctx.pick([2, 10, 24], [2, 3, 7, 10, 24, 64])
    idx = 0
    for name in SANDVINE:
        for s in gens.STRATEGY_NAMES:
            for n in ns:
                for rule in ("trapezoid", "rectangle"):
                    if idx % nshards == shard:
                        yield dict(dataset="sandvine_" + name, strategy=s, n=n, rule=rule, kw={},
                                   append=[None, True, False][idx % 3])
                    idx += 1


def dataset_body(ctx, case):
    from traffic_weaver.datasets import load_dataset
    data = load_dataset(case["dataset"])
    if not (isinstance(data, np.ndarray) and data.ndim == 2 and data.shape[1] == 2):
        raise Violation(f"load_dataset({case['dataset']!r}) is not an (N, 2) array")
    x, y = data[:, 0].copy(), data[:, 1].copy()
    case = dict(case, x=x.tolist())
    ox, oy, px, py, zx, zy = run_pipeline(x, y, case)
    cls = ["s:" + case["strategy"], f"n={case['n']}", "rule:" + case["rule"], "append:" + str(case["append"])]
    rec = {k: v for k, v in case.items() if k != "x"}
    judge(ctx, dict(case), ox, oy, px, py, zx, zy, cls)
    return rec


def dataset_body_wrapped(ctx, case):
    dataset_body(ctx, case)


SUBCHECKS = [
    Sub("pipeline", "hyp", pipeline_body, strategy=pipeline_case, quick=1200, thorough=32000,
        clause="mean over every original interval equals the original average; rectangle: block averaging returns "
               "the abscissae exactly and the averages to rounding"),
    Sub("long", "hyp", pipeline_body, strategy=long_case, quick=24, thorough=600,
        clause="same at the upper end of the claimed ranges (33..60 points, n 40..64: thousands of samples)"),
    Sub("dynamic_range", "hyp", pipeline_body, strategy=dynamic_case, quick=300, thorough=8000,
        clause="same with bursts 1e7..1e13 times larger than the rest: every interval judged on its own scale"),
    Sub("datasets", "enum", dataset_body_wrapped, cases=dataset_cases, shards=16, exhaustive=True,
        clause="same on every bundled dataset x strategy x n x rule"),
]
