"""C17 - array helpers, interval view and block averaging keep their contracts."""
import math
from fractions import Fraction

import numpy as np
from hypothesis import strategies as st

from twv.runner import Sub, Violation
from twv.gens import fl, xs, ys, is_uniform

import traffic_weaver.sorted_array_utils as sau
import traffic_weaver.process as process
from traffic_weaver.interval import IntervalArray

PROPERTY = "C17"
LEVEL = "exploration"
RULE = ("Hypothesis builds arrays of 1..50 elements (strictly increasing abscissae of six spacing kinds or values of "
        "seven kinds; int64 / float64 / Python list), n in 1..16 (1, 2, 3 over-weighted), direction both/left/right/"
        "omitted, explicit lstart/rstop below, at or above the data or exactly 0 / 0.0 / -0.0, interval sizes that do "
        "and do not divide the length, index pairs (i, j) with i*n+j inside the array; lengths 1 and 2 over-weighted "
        "wherever the documented precondition allows them; value kinds include exact zeros at random positions and "
        "'mixed magnitude' (rows of non-dyadic O(0.1) values next to rows of 1e12-scale peaks); abscissa kinds include "
        "'tiny' (1e-9..1e-12 x non-uniform integer lattice), 'near-uniform' (uniform step with 1e-7..1e-5 relative "
        "jitter incl. the last step) and 'offset' (1.7e9 + small non-uniform gaps), where default-tolerance "
        "allclose / isclose spacing tests answer wrongly. One sub-check per "
        "helper family, each compared with a closed form written from the docstrings, plus histories of 3..12 "
        "operations (reads, writes, views, len, full-interval count, iteration, extensions) on ONE IntervalArray "
        "compared with a list model after every step. Non-trivial = length not divisible by n, or n >= 2 with "
        "non-uniform data (append: non-uniform x or y[0] != y[-1]; integrals: >= 2 gaps with non-uniform x or y; "
        "indexing: an index pair with i > 0 and j > 0; history: an observer called after a write or an extension); "
        "distinct = distinct full input.")
ASSUMPTIONS = ["default end values of extend_linspace need len(a) > n (documented mirror point a[n] / a[-1-n]); "
               "with both end values explicit any length >= 1 is used",
               "append_one_sample needs >= 2 samples (uses the last step)",
               "integral rules are called with ndarrays (as every caller in the library does), sum_over_indices "
               "with non-decreasing indices inside 0..len(a)",
               "index pairs are Python ints with 0 <= j < n and i*n+j < len(a)",
               "'bitwise' clauses are checked as exact value equality (==, NaN matching NaN): numpy.linspace turns "
               "-0.0 into +0.0; interpolated / extrapolated / appended values are compared with exact rational values, "
               "tolerance 16 ulp (append: 8 ulp) of the magnitude of the operands of THAT element (the two neighbours; "
               "end value, first/last element and mirror source) - twice the a-priori rounding bound, nothing global",
               "sums and means (average, round trip, sum_over_indices, integral rules) are compared with exact rational "
               "values; tolerance 2*k ulp of the magnitude of THAT row / range / element only (k = number of rounded "
               "operations; twice the a-priori bound of any summation order), exact when a row or range holds one value",
               "the 2-D views are not asserted to be copies or aliases (the docstrings promise neither); only that a "
               "view requested after a write or an extension shows the current contents",
               "histories: written values are ints for int64 arrays (an int array silently truncates floats); "
               "IntervalArray.extend_linspace only while len > n"]
TECHNIQUE = ("Hypothesis-generated arrays / interval sizes / directions / end values checked against closed-form and "
             "plain-loop reference models of every helper, plus the oversample-then-average round trip")
LEVEL_TEXT = ("Randomized exploration of small inputs (length <= 50, n <= 16: the helpers are index arithmetic, every "
              "boundary - length 1, n = 1, remainder 0..n-1, each direction, explicit end values on either side - is "
              "reached many times) against independent closed forms; exact comparison wherever the contract is a copy, "
              "a few ulp of the local magnitude for everything computed (exact rational oracle). Model-based histories "
              "on one object expose state kept between calls. Exploration, not proof.")
LEVEL_NOTE = "trusts the closed forms in this module (a few lines each, no traffic_weaver import) and the tolerance"

DIRECTIONS = ["both", "left", "right", "default"]


# ---- generators ------------------------------------------------------------------------------------------------

_LENGTHS = [1, 1, 1, 2, 2, 2, 3, 3, 4, 4, 5, 6, 7, 8, 9, 10, 11, 12, 13, 15, 16, 17, 20, 24, 25, 27, 30, 32, 33, 36, 40, 45, 48,
            49, 50]
_NS = [1, 1, 2, 2, 3, 3, 4, 4, 5, 6, 7, 8, 9, 10, 11, 12, 13, 14, 15, 16]
_ONE_IN_FOUR = [False, False, False, True]


def _length(lo, hi):
    """sampled_from spreads much more evenly than st.integers (which favours the lower bound)"""
    hi = max(lo, hi)
    pool = [v for v in _LENGTHS if lo <= v <= hi] or [lo]
    if lo not in pool:
        pool = [lo, lo + 1] + pool if lo + 1 <= hi else [lo] + pool
    return st.sampled_from(pool)


def _nval(lo=1, hi=16):
    hi = max(lo, hi)
    return st.sampled_from([v for v in _NS if lo <= v <= hi] or [lo])


_SMALL = [0.1, 0.2, 0.3, 0.7, 1.1, 1.3, -0.1, -0.7, 0.0]          # non-dyadic O(0.1) values (and an exact zero)
_BIG = [1e12, 1e12 + 0.5, 3e12, -1e12, 1.0000001e12, 7.3e11]


@st.composite
def _mixed(draw, m, block=None):
    """values whose magnitude changes by ~13 decades between blocks of `block` elements (whole rows of O(0.1) values
    next to rows holding 1e12-scale peaks); block=None: run lengths drawn at random"""
    out = []
    while len(out) < m:
        b = block if block is not None else draw(st.sampled_from([1, 1, 2, 3, 5, 8]))
        cls = draw(st.sampled_from(["big", "small", "small", "both"]))
        for _ in range(b):
            if cls == "both":
                pool = draw(st.sampled_from([_BIG, _SMALL]))
            else:
                pool = _BIG if cls == "big" else _SMALL
            v = draw(st.sampled_from(pool))
            if v != 0.0 and draw(st.booleans()):
                v = v * (1 + draw(st.integers(1, 1000)) / 1024.0 / 16)
            out.append(float(v))
    return out[:m]


_GAPS = [1, 1, 2, 3, 5, 8]


@st.composite
def _spacing_kind(draw, m, kind):
    """strictly increasing abscissae on which a spacing test with numpy's default allclose / isclose tolerances
    (rtol 1e-5, atol 1e-8) gives the wrong answer:
      tiny         - 1e-9 / 1e-10 / 1e-12 times a non-uniform integer lattice (every step is below atol)
      near-uniform - uniform step h, some points (always the last one) moved by 1e-7..1e-5 of h
      offset       - 1.7e9 + small non-uniform gaps (epoch seconds)"""
    if kind == "tiny":
        scale = draw(st.sampled_from([1e-9, 1e-9, 1e-10, 1e-12]))
        k = [draw(st.sampled_from([0, 0, 1, -3, 17]))]
        for g in draw(st.lists(st.sampled_from(_GAPS), min_size=m - 1, max_size=m - 1)):
            k.append(k[-1] + g)
        return [scale * v for v in k]
    if kind == "near-uniform":
        h = draw(st.sampled_from([1.0, 1.0, 0.5, 0.25, 1e-3, 60.0, 3600.0, 0.1]))
        x0 = draw(st.sampled_from([0.0, 0.0, 1.0, -7.0, 100.0])) * h
        x = [x0 + i * h for i in range(m)]
        moved = set(draw(st.lists(st.sampled_from(range(m)), max_size=3))) | {m - 1}
        for i in sorted(moved):
            x[i] = x[i] + h * draw(st.sampled_from([1e-7, 3e-7, 1e-6, 3e-6, 1e-5, -1e-7, -1e-6, -3e-6, -1e-5]))
        return x
    base = draw(st.sampled_from([1.7e9, 1.7e9, 1.7e9 + 12345.0, 1.7e9 + 0.5]))
    x = [base]
    for g in draw(st.lists(st.sampled_from([0.25, 0.5, 1.0, 1.5, 2.0, 3.0, 7.0, 0.1, 0.3]), min_size=m - 1, max_size=m - 1)):
        x.append(x[-1] + g)
    return x


@st.composite
def _values(draw, m, increasing=False, block=None):
    """dict(a=list, kind, int): m numbers; ints are Python ints (-> int64 array), floats Python floats."""
    src = draw(st.sampled_from(["int", "x", "y", "y", "mixed", "mixed", "tiny", "near-uniform", "offset"]
                               if not increasing else
                               ["int", "x", "x", "tiny", "tiny", "near-uniform", "near-uniform", "offset"]))
    if src in ("tiny", "near-uniform", "offset"):
        return dict(a=draw(_spacing_kind(m, src)), kind="x:" + src, int=False)
    if src == "mixed":
        return dict(a=draw(_mixed(m, block)), kind="mixed-magnitude", int=False)
    if src == "int":
        if increasing:
            x0 = draw(st.integers(-50, 50))
            g = draw(st.one_of(st.just([1] * (m - 1)),
                               st.lists(st.sampled_from([1, 1, 2, 3, 5, 8]), min_size=m - 1, max_size=m - 1)))
            a = [x0]
            for v in g:
                a.append(a[-1] + v)
            return dict(a=a, kind="int-increasing", int=True)
        a = draw(st.lists(st.integers(-40, 40), min_size=m, max_size=m))
        return dict(a=_with_zeros(draw, a, 0), kind="int-any", int=True)
    if src == "x":
        d = draw(xs(m))
        return dict(a=d["x"], kind="x:" + d["kind"], int=bool(d["int"]))
    d = draw(ys(m))
    return dict(a=_with_zeros(draw, d["y"], draw(st.sampled_from([0.0, 0.0, -0.0]))), kind="y:" + d["kind"], int=False)


def _with_zeros(draw, a, zero):
    """in one case out of three put exact zeros at one to three random positions (falsy values inside the data)"""
    a = list(a)
    if draw(st.sampled_from([True, False, False])):
        for _ in range(draw(st.sampled_from([1, 2, 3]))):
            a[draw(st.sampled_from(range(len(a))))] = zero
    return a


@st.composite
def _array(draw, lo, hi, increasing=False, allow_list=True):
    m = draw(_length(lo, hi))
    d = draw(_values(m, increasing))
    d["as_list"] = allow_list and draw(st.sampled_from(_ONE_IN_FOUR))
    return d


def _arg(a, as_int, as_list):
    """the object handed to the code under test (fresh on every call)"""
    if as_list:
        return list(a)
    return np.array(a, dtype=np.int64 if as_int else float)


def _xkind(case, key="kind"):
    k = case.get(key, "")
    return "x:" + (k[2:] if k in ("x:tiny", "x:near-uniform", "x:offset") else "other")


def _rec(ctx, case, classes, nontrivial):
    """record with the spacing kind of the abscissae / array added to the classes"""
    ctx.record(case, set(classes) | {_xkind(case, "xkind" if "xkind" in case else "kind")}, nontrivial)


def _base_classes(a, n, as_int, as_list):
    m = len(a)
    cls = {"n=1" if n == 1 else "n=2" if n == 2 else "n=3..8" if n <= 8 else "n=9..16",
           "len=1" if m == 1 else "len=2" if m == 2 else "len=3..10" if m <= 10 else "len=11..50",
           "int64" if as_int else "float64", "list" if as_list else "ndarray",
           "uniform" if is_uniform([float(v) for v in a]) else "non-uniform"}
    return cls


def _magnitude_class(a):
    nz = [abs(float(v)) for v in a if v != 0]
    if not nz:
        return "all-zero"
    r = max(nz) / min(nz)
    return "range>=1e9" if r >= 1e9 else "range<1e9"


def _nontrivial_oversample(a, n):
    return n >= 2 and not is_uniform([float(v) for v in a])


# ---- result validation -----------------------------------------------------------------------------------------

def _vec(res, name, length, allow_input_type=False):
    """validate a 1-D numeric result and return it as a list of Python numbers"""
    if allow_input_type and isinstance(res, list):
        out = list(res)
    elif isinstance(res, np.ndarray):
        if res.ndim != 1:
            raise Violation(f"{name}: result has shape {res.shape}, expected 1-D")
        if not (np.issubdtype(res.dtype, np.floating) or np.issubdtype(res.dtype, np.integer)):
            raise Violation(f"{name}: result dtype {res.dtype}")
        out = res.tolist()
    else:
        raise Violation(f"{name}: result is {type(res).__name__}, not ndarray")
    if len(out) != length:
        raise Violation(f"{name}: result has {len(out)} elements, expected {length}", detail=dict(got=_clip(out)))
    return out


def _mat(res, name, shape):
    if not isinstance(res, np.ndarray) or res.ndim != 2:
        raise Violation(f"{name}: result is {type(res).__name__} ndim={getattr(res, 'ndim', None)}, expected 2-D array")
    if tuple(res.shape) != tuple(shape):
        raise Violation(f"{name}: shape {tuple(res.shape)}, expected {tuple(shape)}")
    if not np.issubdtype(res.dtype, np.floating):
        raise Violation(f"{name}: dtype {res.dtype}, expected float (NaN padding)")
    return res.tolist()


def _clip(v, k=40):
    return v[:k] if isinstance(v, list) else v


def _eq(g, w):
    """exact value equality, NaN matching NaN"""
    if isinstance(w, float) and math.isnan(w):
        return isinstance(g, float) and math.isnan(g)
    return g == w


def _num(w):
    return float(w) if isinstance(w, Fraction) else w


def _ulp_tol(k, scale):
    """2 * k ulp(scale): twice the a-priori bound k * 2**-53 * scale (< k * ulp(scale)) on the error of summing k
    floats of magnitude <= scale/k in any order (plus one division); 0 when the scale is 0 (result must be exact)"""
    return 2 * k * math.ulp(scale) if scale > 0 else 0.0


def _compare(name, got, want):
    """want: list of (value, tol) - tol None means exact"""
    for k, (g, (w, tol)) in enumerate(zip(got, want)):
        if tol is None:
            ok = _eq(g, w)
        elif not isinstance(g, (int, float)) or not math.isfinite(g):
            ok = False
        elif isinstance(w, Fraction):
            ok = abs(Fraction(g) - w) <= Fraction(tol)          # exact rational oracle: no rounding on our side
        else:
            ok = abs(g - w) <= tol
        if not ok:
            raise Violation(f"{name}: element {k} is {g!r}, expected {_num(w)!r}" + (" exactly" if tol is None
                                                                                    else f" (tol {tol:.3g})"),
                            detail=dict(got=_clip(got), want=_clip([_num(w_) for w_, _ in want])))


# ---- closed forms (no traffic_weaver code) ---------------------------------------------------------------------

def o_oversample_linspace(a, n):
    af = [float(v) for v in a]
    if n < 2:
        return [(v, None) for v in a]
    out = []
    for k in range(len(af) - 1):
        lo, hi = af[k], af[k + 1]
        out.append((lo, None))
        # exact value; tolerance from the two neighbours only: difference, quotient, product and sum are each rounded
        # once, at most 7 * 2**-53 * max(|lo|, |hi|) in total - 16 ulp of that magnitude is twice the bound
        tol = _ulp_tol(8, max(abs(lo), abs(hi)))
        for j in range(1, n):
            out.append((Fraction(lo) + (Fraction(hi) - Fraction(lo)) * j / n, tol))
    out.append((af[-1], None))
    return out


def o_oversample_piecewise(a, n):
    if n < 2:
        return [(v, None) for v in a]
    out = []
    for k in range(len(a) - 1):
        out.extend([(a[k], None)] * n)
    out.append((a[-1], None))
    return out


def _sides(direction):
    d = "both" if direction == "default" else direction
    return d in ("both", "left"), d in ("both", "right")


def o_extend_linspace(a, n, direction, lstart=None, rstop=None):
    af = [float(v) for v in a]
    left, right = _sides(direction)
    out = []
    if left:
        ls = Fraction(lstart) if lstart is not None else 2 * Fraction(af[0]) - Fraction(af[n])
        tol = _ulp_tol(8, max(abs(float(ls)), abs(af[0]), abs(af[n]) if lstart is None else 0.0))
        out.extend((ls + (Fraction(af[0]) - ls) * k / n, tol) for k in range(n))
    out.extend((v, None) for v in af)
    if right:
        rs = Fraction(rstop) if rstop is not None else 2 * Fraction(af[-1]) - Fraction(af[-1 - n])
        tol = _ulp_tol(8, max(abs(float(rs)), abs(af[-1]), abs(af[-1 - n]) if rstop is None else 0.0))
        out.extend((Fraction(af[-1]) + (rs - Fraction(af[-1])) * k / n, tol) for k in range(1, n + 1))
    return out


def o_extend_constant(a, n, direction):
    left, right = _sides(direction)
    out = []
    if left:
        out.extend([(a[0], None)] * n)
    out.extend((v, None) for v in a)
    if right:
        out.extend([(a[-1], None)] * n)
    return out


def o_rows(a, n):
    """row-major layout with NaN padding"""
    m = len(a)
    rows = -(-m // n)
    return [[float(a[r * n + c]) if r * n + c < m else math.nan for c in range(n)] for r in range(rows)]


def o_closed_rows(a, n, drop_last):
    rows = o_rows(a, n)
    out = [row + [rows[r + 1][0] if r + 1 < len(rows) else math.nan] for r, row in enumerate(rows)]
    return out[:-1] if drop_last else out


def o_row_means(y, n):
    """exact row means; the tolerance of a row depends on that row's own magnitude only: k values of magnitude <= M
    summed in floating point in any order and divided by k are within k * 2**-53 * M of the exact mean.  A row that
    holds a single value must return it unchanged."""
    out = []
    for r in range(-(-len(y) // n)):
        row = [Fraction(v) for v in y[r * n:(r + 1) * n]]
        if len(row) == 1:
            out.append((float(row[0]), None))
        else:
            out.append((sum(row) / len(row), _ulp_tol(len(row), float(max(abs(v) for v in row)))))
    return out


def _kw_dir(direction):
    return {} if direction == "default" else dict(direction=direction)


# ---- 1. oversample_linspace ------------------------------------------------------------------------------------

@st.composite
def oversample_case(draw, ctx):
    d = draw(_array(1, 50))
    d["n"] = draw(_nval(1, 16))
    return d


def oversample_linspace_body(ctx, case):
    a, n = case["a"], case["n"]
    res = sau.oversample_linspace(_arg(a, case["int"], case["as_list"]), n)
    got = _vec(res, "oversample_linspace", (len(a) - 1) * n + 1, allow_input_type=n < 2)
    if n >= 2 and not np.issubdtype(res.dtype, np.floating):
        raise Violation(f"oversample_linspace: dtype {res.dtype}, expected float")
    _compare("oversample_linspace", got, o_oversample_linspace(a, n))
    _rec(ctx, case, _base_classes(a, n, case["int"], case["as_list"]), _nontrivial_oversample(a, n))


# ---- 2. oversample_piecewise_constant --------------------------------------------------------------------------

def oversample_piecewise_body(ctx, case):
    a, n = case["a"], case["n"]
    res = sau.oversample_piecewise_constant(_arg(a, case["int"], case["as_list"]), n)
    got = _vec(res, "oversample_piecewise_constant", (len(a) - 1) * n + 1, allow_input_type=n < 2)
    _compare("oversample_piecewise_constant", got, o_oversample_piecewise(a, n))
    _rec(ctx, case, _base_classes(a, n, case["int"], case["as_list"]), _nontrivial_oversample(a, n))


# ---- 3. extend_linspace ----------------------------------------------------------------------------------------

@st.composite
def _end_value(draw, anchor, is_int, gap=None):
    """explicit end value below, at or above `anchor`, or exactly zero (a falsy but perfectly valid end value)"""
    kind = draw(st.sampled_from(["below", "below", "above", "above", "at", "at", "zero", "zero", "zero", "zero"]))
    if kind == "at":
        return kind, anchor
    if kind == "zero":
        return kind, draw(st.sampled_from([0, 0.0, -0.0]))
    if gap and draw(st.booleans()):
        d = gap * draw(st.sampled_from([0.5, 1, 2, 3, 10]))        # on the scale of the data's own spacing
    elif is_int and draw(st.booleans()):
        d = draw(st.integers(1, 40))
    else:
        d = draw(st.one_of(st.integers(1, 64).map(lambda v: v / 8.0), fl(1e-3, 1e3)))
    return kind, (anchor - d if kind == "below" else anchor + d)


@st.composite
def extend_linspace_case(draw, ctx):
    direction = draw(st.sampled_from(DIRECTIONS))
    left, right = _sides(direction)
    mode = draw(st.sampled_from(["default", "default", "explicit", "explicit", "lstart-only", "rstop-only",
                                 "unused-side"]))
    n = draw(_nval(1, 16))
    # which requested sides fall back on the documented mirror point (needs len(a) > n)
    l_explicit = mode in ("explicit", "lstart-only") or (mode == "unused-side" and not left)
    r_explicit = mode in ("explicit", "rstop-only") or (mode == "unused-side" and not right)
    if mode == "unused-side" and left and right:
        l_explicit = r_explicit = False
    needs_mirror = (left and not l_explicit) or (right and not r_explicit)
    d = draw(_array(n + 1 if needs_mirror else 1, 50))
    a = d["a"]
    lkind = rkind = "none"
    lstart = rstop = None
    if l_explicit:
        lkind, lstart = draw(_end_value(a[0], d["int"], abs(a[1] - a[0]) if len(a) > 1 else None))
    if r_explicit:
        rkind, rstop = draw(_end_value(a[-1], d["int"], abs(a[-1] - a[-2]) if len(a) > 1 else None))
    d.update(n=n, direction=direction, lstart=lstart, rstop=rstop, lkind=lkind, rkind=rkind, mode=mode)
    return d


def extend_linspace_body(ctx, case):
    a, n, direction = case["a"], case["n"], case["direction"]
    left, right = _sides(direction)
    kw = _kw_dir(direction)
    if case["lstart"] is not None:
        kw["lstart"] = case["lstart"]
    if case["rstop"] is not None:
        kw["rstop"] = case["rstop"]
    res = sau.extend_linspace(_arg(a, case["int"], case["as_list"]), n, **kw)
    got = _vec(res, "extend_linspace", len(a) + n * (int(left) + int(right)))
    want = o_extend_linspace(a, n, direction, case["lstart"] if left else None, case["rstop"] if right else None)
    _compare(f"extend_linspace({direction})", got, want)
    cls = _base_classes(a, n, case["int"], case["as_list"])
    cls.add("dir:" + direction)
    cls.add("mode:" + case["mode"])
    if left:
        cls.add("lstart:" + (case["lkind"] if case["lstart"] is not None else "mirror"))
    if right:
        cls.add("rstop:" + (case["rkind"] if case["rstop"] is not None else "mirror"))
    if len(a) <= n:
        cls.add("len<=n")
    _rec(ctx, case, cls, len(a) % n != 0 or _nontrivial_oversample(a, n))


# ---- 4. extend_constant ----------------------------------------------------------------------------------------

@st.composite
def extend_constant_case(draw, ctx):
    d = draw(_array(1, 50))
    d["n"] = draw(_nval(1, 16))
    d["direction"] = draw(st.sampled_from(DIRECTIONS))
    return d


def extend_constant_body(ctx, case):
    a, n, direction = case["a"], case["n"], case["direction"]
    left, right = _sides(direction)
    res = sau.extend_constant(_arg(a, case["int"], case["as_list"]), n, **_kw_dir(direction))
    got = _vec(res, "extend_constant", len(a) + n * (int(left) + int(right)))
    _compare(f"extend_constant({direction})", got, o_extend_constant(a, n, direction))
    cls = _base_classes(a, n, case["int"], case["as_list"])
    cls.add("dir:" + direction)
    if a[0] != a[-1]:
        cls.add("ends-differ")
    _rec(ctx, case, cls, len(a) % n != 0 or _nontrivial_oversample(a, n))


# ---- 5. append_one_sample --------------------------------------------------------------------------------------

@st.composite
def append_case(draw, ctx):
    m = draw(_length(2, 50))
    xd = draw(_values(m, increasing=True))
    yd = draw(_values(m))
    return dict(x=xd["a"], y=yd["a"], xint=xd["int"], yint=yd["int"], xkind=xd["kind"], ykind=yd["kind"],
                as_list=draw(st.sampled_from(_ONE_IN_FOUR)), periodic=draw(st.sampled_from([True, False, "default"])))


def append_body(ctx, case):
    x, y, periodic = case["x"], case["y"], case["periodic"]
    kw = {} if periodic == "default" else dict(make_periodic=periodic)
    res = sau.append_one_sample(_arg(x, case["xint"], case["as_list"]), _arg(y, case["yint"], case["as_list"]), **kw)
    if not (isinstance(res, tuple) and len(res) == 2):
        raise Violation(f"append_one_sample returned {type(res).__name__}, expected a pair")
    m = len(x)
    gx = _vec(res[0], "append_one_sample x", m + 1)
    gy = _vec(res[1], "append_one_sample y", m + 1)
    xf = [float(v) for v in x]
    yf = [float(v) for v in y]
    # the appended abscissa is x[-1] plus the LAST step, to a few ulp of the last two abscissae (8 ulp covers both
    # 2*x[-1] - x[-2] and x[-1] + (x[-1] - x[-2])); nothing relative to the span or to 1
    wx = [(v, None) for v in xf] + [(2 * Fraction(xf[-1]) - Fraction(xf[-2]),
                                     _ulp_tol(4, max(abs(xf[-1]), abs(xf[-2]))))]
    wy = [(v, None) for v in yf] + [(yf[0] if periodic is True else yf[-1], None)]
    _compare("append_one_sample x", gx, wx)
    _compare(f"append_one_sample y (make_periodic={periodic})", gy, wy)
    cls = {"periodic:" + str(periodic), "len=2" if m == 2 else "len=3..10" if m <= 10 else "len=11..50",
           "x-int64" if case["xint"] else "x-float64", "y-int64" if case["yint"] else "y-float64",
           "list" if case["as_list"] else "ndarray", "x-uniform" if is_uniform(xf) else "x-non-uniform",
           "y-ends-differ" if yf[0] != yf[-1] else "y-ends-equal"}
    _rec(ctx, case, cls, (not is_uniform(xf)) or yf[0] != yf[-1])


# ---- 6. IntervalArray indexing ---------------------------------------------------------------------------------

@st.composite
def index_case(draw, ctx):
    d = draw(_array(1, 50))
    a = d["a"]
    m = len(a)
    n = draw(_nval(1, 16))
    ops = []
    for _ in range(draw(st.integers(1, 8))):
        flat = draw(st.sampled_from(range(m)))
        kind = draw(st.sampled_from(["get-pair", "set-pair", "get-flat", "set-flat"]))
        op = dict(kind=kind)
        if kind.endswith("pair"):
            # any (i, j) with 0 <= j < n and i*n + j == flat
            op["i"], op["j"] = flat // n, flat % n
        else:
            op["k"] = flat
        if kind.startswith("set"):
            op["value"] = draw(st.integers(-99, 99)) if d["int"] else draw(
                st.one_of(st.integers(-99, 99).map(float), fl(-1e3, 1e3)))
        ops.append(op)
    d.update(n=n, ops=ops)
    return d


def _scalar(v, name):
    if isinstance(v, np.ndarray) and v.ndim > 0 or not isinstance(v, (int, float, np.generic)):
        raise Violation(f"{name} returned {type(v).__name__}, expected a scalar")
    return v.item() if isinstance(v, np.generic) else v


def index_body(ctx, case):
    a, n = case["a"], case["n"]
    ia = IntervalArray(_arg(a, case["int"], case["as_list"]), n)
    model = list(a)
    deep = False
    kinds = set()
    for op in case["ops"]:
        kind = op["kind"]
        kinds.add(kind)
        if kind.endswith("pair"):
            i, j = op["i"], op["j"]
            flat = i * n + j
            deep = deep or (i > 0 and j > 0)
            label = f"[{i}, {j}] (n={n})"
        else:
            flat = op["k"]
            label = f"[{flat}]"
        if kind == "get-pair":
            got = _scalar(ia[op["i"], op["j"]], "IntervalArray" + label)
        elif kind == "get-flat":
            got = _scalar(ia[op["k"]], "IntervalArray" + label)
        else:
            if kind == "set-pair":
                ia[op["i"], op["j"]] = op["value"]
            else:
                ia[op["k"]] = op["value"]
            model[flat] = op["value"]
            now = _vec(ia.array, "IntervalArray.array", len(model))
            if not all(_eq(g, w) for g, w in zip(now, model)):
                raise Violation(f"IntervalArray{label} = {op['value']!r} did not write exactly flat index {flat}",
                                detail=dict(got=now, want=model))
            continue
        if not _eq(got, model[flat]):
            raise Violation(f"IntervalArray{label} read {got!r}, flat index {flat} holds {model[flat]!r}",
                            detail=dict(array=model))
    cls = _base_classes(a, n, case["int"], case["as_list"]) | kinds
    cls.discard("uniform")
    cls.discard("non-uniform")
    cls.add("len%n!=0" if len(a) % n else "len%n==0")
    _rec(ctx, case, cls, deep)


# ---- 7. 2-D views, nr_of_full_intervals, len -------------------------------------------------------------------

@st.composite
def view_case(draw, ctx):
    n = draw(_nval(1, 16))
    if draw(st.booleans()):
        m = n * draw(st.sampled_from(range(1, max(1, 50 // n) + 1)))      # divisible
    else:
        m = draw(_length(1, 50))
    d = draw(_values(m))
    d["as_list"] = draw(st.sampled_from(_ONE_IN_FOUR))
    d["n"] = n
    return d


def _check_mat(name, got, want):
    for r, (gr, wr) in enumerate(zip(got, want)):
        for c, (g, w) in enumerate(zip(gr, wr)):
            if not _eq(g, w):
                raise Violation(f"{name}: element [{r}][{c}] is {g!r}, expected {w!r}", detail=dict(got=got, want=want))


def view_body(ctx, case):
    a, n = case["a"], case["n"]
    m = len(a)
    ia = IntervalArray(_arg(a, case["int"], case["as_list"]), n)
    rows = -(-m // n)
    _check_mat("to_2d_array", _mat(ia.to_2d_array(), "to_2d_array", (rows, n)), o_rows(a, n))
    for label, kw, drop in (("default", {}, True), ("drop_last=True", dict(drop_last=True), True),
                            ("drop_last=False", dict(drop_last=False), False)):
        name = f"to_2d_array_closed_intervals({label})"
        got = _mat(ia.to_2d_array_closed_intervals(**kw), name, (rows - 1 if drop else rows, n + 1))
        _check_mat(name, got, o_closed_rows(a, n, drop))
    full = ia.nr_of_full_intervals()
    if isinstance(full, bool) or not isinstance(full, (int, np.integer)) or int(full) != m // n:
        raise Violation(f"nr_of_full_intervals() = {full!r} for {m} elements, n={n}; expected {m // n}")
    if len(ia) != m:
        raise Violation(f"len(IntervalArray) = {len(ia)}, expected {m}")
    cls = _base_classes(a, n, case["int"], case["as_list"])
    cls.add("len%n!=0" if m % n else "len%n==0")
    cls.add("rows=1" if rows == 1 else "rows=2" if rows == 2 else "rows>=3")
    if m < n:
        cls.add("len<n")
    _rec(ctx, case, cls, m % n != 0 or _nontrivial_oversample(a, n))


# ---- 8. integral rules, dispatcher, range sums -----------------------------------------------------------------

@st.composite
def integral_case(draw, ctx):
    m = draw(_length(1, 50))
    xd = draw(_values(m, increasing=True))
    yd = draw(_values(m))
    k = draw(st.integers(2, 8))
    idx = sorted(draw(st.lists(st.integers(0, m), min_size=k, max_size=k)))
    return dict(x=xd["a"], y=yd["a"], xint=xd["int"], yint=yd["int"], xkind=xd["kind"], ykind=yd["kind"],
                indices=idx, sum_as_list=draw(st.booleans()))


def integral_body(ctx, case):
    x, y = case["x"], case["y"]
    m = len(x)
    xf = [float(v) for v in x]
    yf = [float(v) for v in y]
    # exact rational values; tolerances in ulps of each element's own magnitude (rectangle: one rounded difference and
    # one rounded product; trapezoid: one more rounded sum) - nothing global enters
    xq = [Fraction(v) for v in xf]
    yq = [Fraction(v) for v in yf]
    rect = [(yq[i] * (xq[i + 1] - xq[i]), _ulp_tol(2, abs(yf[i]) * (xf[i + 1] - xf[i]))) for i in range(m - 1)]
    trap = [((yq[i] + yq[i + 1]) / 2 * (xq[i + 1] - xq[i]),
             _ulp_tol(3, (abs(yf[i]) + abs(yf[i + 1])) / 2 * (xf[i + 1] - xf[i]))) for i in range(m - 1)]

    def args():
        return _arg(x, case["xint"], False), _arg(y, case["yint"], False)

    calls = [("rectangle_integral", sau.rectangle_integral(*args()), rect),
             ("trapezoid_integral", sau.trapezoid_integral(*args()), trap),
             ("integral(default)", sau.integral(*args()), trap),
             ("integral('trapezoid')", sau.integral(*args(), method="trapezoid"), trap),
             ("integral('rectangle')", sau.integral(*args(), "rectangle"), rect)]
    for name, res, want in calls:
        _compare(name, _vec(res, name, m - 1), want)
    # range sums over the values y (any array-like) and over the elementary trapezoid integrals
    idx = case["indices"]
    for label, vals in (("y", yf), ("trapezoid", [float(w) for w, _ in trap])):
        idx = [min(i, len(vals)) for i in case["indices"]]       # indices stay inside 0..len(a)
        src = list(vals) if case["sum_as_list"] else np.array(vals, dtype=float)
        ind = list(idx) if case["sum_as_list"] else np.array(idx, dtype=np.int64)
        got = _vec(sau.sum_over_indices(src, ind), f"sum_over_indices({label})", len(idx) - 1)
        want = []
        for s, e in zip(idx[:-1], idx[1:]):
            part = vals[s:e]
            if len(part) <= 1:          # empty range: 0; single element: that element, unchanged
                want.append((part[0] if part else 0.0, None))
            else:                       # tolerance from the range's own magnitude only
                want.append((sum(Fraction(v) for v in part), _ulp_tol(len(part), math.fsum(abs(v) for v in part))))
        _compare(f"sum_over_indices({label}, {idx})", got, want)
    cls = {"len=1" if m == 1 else "len=2" if m == 2 else "len=3..10" if m <= 10 else "len=11..50",
           "x-int64" if case["xint"] else "x-float64", "y-int64" if case["yint"] else "y-float64",
           "x-uniform" if is_uniform(xf) else "x-non-uniform",
           "empty-range" if any(s == e for s, e in zip(idx[:-1], idx[1:])) else "no-empty-range",
           "sum:list" if case["sum_as_list"] else "sum:ndarray", "y:" + _magnitude_class(y)}
    _rec(ctx, case, cls, m >= 3 and (not is_uniform(xf) or not is_uniform(yf)))


# ---- 9. average ------------------------------------------------------------------------------------------------

@st.composite
def average_case(draw, ctx):
    n = draw(_nval(1, 16))
    if draw(st.sampled_from([True, False, False])):
        m = n * draw(st.sampled_from(range(1, max(1, 50 // n) + 1)))
    else:
        m = draw(_length(1, 50))
    xd = draw(_values(m, increasing=True))
    yd = draw(_values(m, block=draw(st.sampled_from([n, n, None]))))
    return dict(x=xd["a"], y=yd["a"], xint=xd["int"], yint=yd["int"], xkind=xd["kind"], ykind=yd["kind"], n=n,
                as_list=draw(st.sampled_from(_ONE_IN_FOUR)))


def _pair(res, name):
    if not (isinstance(res, tuple) and len(res) == 2):
        raise Violation(f"{name} returned {type(res).__name__}, expected a pair (x, y)")
    return res


def average_body(ctx, case):
    x, y, n = case["x"], case["y"], case["n"]
    m = len(x)
    rows = -(-m // n)
    rx, ry = _pair(process.average(_arg(x, case["xint"], case["as_list"]), _arg(y, case["yint"], case["as_list"]), n),
                   "average")
    gx = _vec(rx, "average x", rows)
    gy = _vec(ry, "average y", rows)
    _compare(f"average x (interval {n})", gx, [(float(x[r * n]), None) for r in range(rows)])
    _compare(f"average y (interval {n})", gy, o_row_means(y, n))
    cls = _base_classes(y, n, case["yint"], case["as_list"])
    cls.add("len%n!=0" if m % n else "len%n==0")
    cls.add("x-int64" if case["xint"] else "x-float64")
    if m < n:
        cls.add("len<n")
    cls.add("y:" + _magnitude_class(y))
    _rec(ctx, case, cls, m % n != 0 or _nontrivial_oversample(y, n))


# ---- 10. round trip --------------------------------------------------------------------------------------------

@st.composite
def roundtrip_case(draw, ctx):
    m = draw(_length(1, 50))
    xd = draw(_values(m, increasing=True))
    yd = draw(_values(m))
    return dict(x=xd["a"], y=yd["a"], xint=xd["int"], yint=yd["int"], xkind=xd["kind"], ykind=yd["kind"],
                n=draw(_nval(1, 16)), as_list=draw(st.sampled_from(_ONE_IN_FOUR)))


def roundtrip_body(ctx, case):
    x, y, n = case["x"], case["y"], case["n"]
    m = len(x)
    ox = sau.oversample_linspace(_arg(x, case["xint"], case["as_list"]), n)
    oy = sau.oversample_piecewise_constant(_arg(y, case["yint"], case["as_list"]), n)
    _vec(ox, "oversample_linspace", (m - 1) * n + 1, allow_input_type=n < 2)
    _vec(oy, "oversample_piecewise_constant", (m - 1) * n + 1, allow_input_type=n < 2)
    rx, ry = _pair(process.average(ox, oy, n), "average")
    gx = _vec(rx, "round trip x", m)
    gy = _vec(ry, "round trip y", m)
    _compare(f"average(oversample_linspace(x, {n}), ..)[0]", gx, [(float(v), None) for v in x])
    # every full row holds n copies of one value v: its mean is v up to the rounding of that row's own sum
    # (n * 2**-53 * |v|, nothing from other rows); the last row holds v alone and must return it unchanged
    _compare(f"average(.., oversample_piecewise_constant(y, {n}), {n})[1]", gy,
             [(float(v), None if n == 1 or k == m - 1 else _ulp_tol(n, abs(float(v)))) for k, v in enumerate(y)])
    cls = _base_classes(y, n, case["yint"], case["as_list"])
    cls.add("x-int64" if case["xint"] else "x-float64")
    cls.add("x-uniform" if is_uniform([float(v) for v in x]) else "x-non-uniform")
    cls.add("y:" + _magnitude_class(y))
    _rec(ctx, case, cls, ((m - 1) * n + 1) % n != 0 or _nontrivial_oversample(y, n))


# ---- 11. the same helpers reached through IntervalArray --------------------------------------------------------

@st.composite
def methods_case(draw, ctx):
    n = draw(_nval(1, 16))
    d = draw(_array(n + 1, 50))
    d.update(n=n, num=draw(_nval(1, 6)), direction=draw(st.sampled_from(DIRECTIONS)))
    return d


def methods_body(ctx, case):
    a, n, num, direction = case["a"], case["n"], case["num"], case["direction"]
    left, right = _sides(direction)
    ext_len = len(a) + n * (int(left) + int(right))

    def fresh():
        return IntervalArray(_arg(a, case["int"], case["as_list"]), n)

    ia = fresh()
    ia.extend_linspace(**_kw_dir(direction))
    _compare(f"IntervalArray.extend_linspace({direction})", _vec(ia.array, "IntervalArray.extend_linspace", ext_len),
             o_extend_linspace(a, n, direction))
    ia = fresh()
    ia.extend_constant(**_kw_dir(direction))
    _compare(f"IntervalArray.extend_constant({direction})", _vec(ia.array, "IntervalArray.extend_constant", ext_len),
             o_extend_constant(a, n, direction))
    over_len = (len(a) - 1) * num + 1
    for name, meth, oracle in (("oversample_linspace", "oversample_linspace", o_oversample_linspace),
                               ("oversample_piecewise", "oversample_piecewise", o_oversample_piecewise)):
        res = getattr(fresh(), meth)(num)
        if not isinstance(res, IntervalArray):
            raise Violation(f"IntervalArray.{name} returned {type(res).__name__}")
        want = oracle(a, num)
        got = _vec(res.array, f"IntervalArray.{name}", over_len, allow_input_type=num < 2)
        _compare(f"IntervalArray.{name}({num})", got, want)
        # every original row start is a row start of the oversampled view (documented layout: n*num columns)
        grid = _mat(res.to_2d_array(), f"IntervalArray.{name}({num}).to_2d_array", (-(-over_len // (n * num)), n * num))
        for r, row in enumerate(grid):
            if not _eq(row[0], float(a[r * n])):
                raise Violation(f"IntervalArray.{name}({num}): row {r} of the oversampled view starts with {row[0]!r}, "
                                f"expected original element {r * n} = {a[r * n]!r}")
    cls = _base_classes(a, n, case["int"], case["as_list"])
    cls.add("dir:" + direction)
    cls.add("num=1" if num == 1 else "num>=2")
    _rec(ctx, case, cls, len(a) % n != 0 or _nontrivial_oversample(a, max(n, num)))


# ---- 12. histories on one IntervalArray object -----------------------------------------------------------------

_HISTORY_OPS = ["set-pair", "set-pair", "set-pair", "set-flat", "set-flat", "to_2d", "to_2d", "to_2d", "closed",
                "closed", "get-pair", "get-pair", "get-flat", "len", "len", "nfull", "nfull", "iter", "array",
                "extend_linspace", "extend_linspace", "extend_constant", "extend_constant"]
_VIEWS = ("to_2d", "closed", "get-pair", "get-flat", "iter", "array", "len", "nfull")


@st.composite
def history_case(draw, ctx):
    """3..12 operations on one object; indices are drawn against the length the model has at that step"""
    n = draw(_nval(1, 16))
    d = draw(_array(1, 30))
    m = len(d["a"])
    steps = []
    for _ in range(draw(st.sampled_from(range(3, 13)))):
        kind = draw(st.sampled_from(_HISTORY_OPS))
        if kind == "extend_linspace" and m <= n:        # documented mirror point needs len > n
            kind = "extend_constant"
        if kind.startswith("extend") and m + 2 * n > 120:
            kind = "to_2d"
        op = dict(op=kind)
        if kind in ("get-pair", "set-pair", "get-flat", "set-flat"):
            flat = draw(st.sampled_from(range(m)))
            if kind.endswith("pair"):
                op["i"], op["j"] = flat // n, flat % n
            else:
                op["k"] = flat
            if kind.startswith("set"):
                # ints are valid for int64 and float arrays alike (the array turns float after extend_linspace)
                op["value"] = draw(st.sampled_from([0, 0, 1, -1, 7, 99, -35])) if d["int"] else draw(
                    st.one_of(st.sampled_from([0.0, -0.0, 0.1, 1e12, -2.5]), fl(-1e3, 1e3)))
        elif kind == "closed":
            op["drop_last"] = draw(st.sampled_from([True, False, "default"]))
        elif kind.startswith("extend"):
            op["direction"] = draw(st.sampled_from(DIRECTIONS))
            left, right = _sides(op["direction"])
            m += n * (int(left) + int(right))
        steps.append(op)
    d.update(n=n, steps=steps)
    return d


def _state(ia, model, after):
    """the object's array must equal the model after every step"""
    now = _vec(ia.array, "IntervalArray.array", len(model))
    for k, (g, w) in enumerate(zip(now, model)):
        if not _eq(g, w):
            raise Violation(f"after {after}: IntervalArray.array[{k}] is {g!r}, the model holds {w!r}",
                            detail=dict(got=_clip(now), want=_clip(model)))


def history_body(ctx, case):
    a, n = case["a"], case["n"]
    ia = IntervalArray(_arg(a, case["int"], case["as_list"]), n)
    model = list(a)
    done = []                    # operations so far (for messages and classes)
    cls = set()
    changed, seen, pending = set(), set(), dict(grid=set(), count=set())
    nontrivial = False
    for step, op in enumerate(case["steps"]):
        kind = op["op"]
        m = len(model)
        rows = -(-m // n)
        tag = f"step {step} {kind} (history: {' '.join(done) or '-'})"
        if kind in ("get-pair", "get-flat"):
            flat = op["i"] * n + op["j"] if kind == "get-pair" else op["k"]
            got = _scalar(ia[op["i"], op["j"]] if kind == "get-pair" else ia[op["k"]], tag)
            if not _eq(got, model[flat]):
                raise Violation(f"{tag}: read {got!r}, flat index {flat} holds {model[flat]!r}",
                                detail=dict(model=_clip(model)))
        elif kind in ("set-pair", "set-flat"):
            flat = op["i"] * n + op["j"] if kind == "set-pair" else op["k"]
            if kind == "set-pair":
                ia[op["i"], op["j"]] = op["value"]
            else:
                ia[op["k"]] = op["value"]
            model[flat] = op["value"]
        elif kind == "to_2d":
            _check_mat(tag, _mat(ia.to_2d_array(), tag, (rows, n)), o_rows(model, n))
        elif kind == "closed":
            drop = op["drop_last"]
            kw = {} if drop == "default" else dict(drop_last=drop)
            dropped = drop is not False
            got = _mat(ia.to_2d_array_closed_intervals(**kw), tag, (rows - 1 if dropped else rows, n + 1))
            _check_mat(tag, got, o_closed_rows(model, n, dropped))
        elif kind == "len":
            if len(ia) != m:
                raise Violation(f"{tag}: len() = {len(ia)}, the object holds {m} elements")
        elif kind == "nfull":
            full = ia.nr_of_full_intervals()
            if isinstance(full, bool) or not isinstance(full, (int, np.integer)) or int(full) != m // n:
                raise Violation(f"{tag}: nr_of_full_intervals() = {full!r} for {m} elements, n={n}")
        elif kind == "iter":
            got = [v.item() if isinstance(v, np.generic) else v for v in iter(ia)]
            if len(got) != m or not all(_eq(g, w) for g, w in zip(got, model)):
                raise Violation(f"{tag}: iteration yields {_clip(got)}, expected {_clip(model)}")
        elif kind == "array":
            pass                                           # compared below, as after every step
        elif kind == "extend_constant":
            ia.extend_constant(**_kw_dir(op["direction"]))
            model = [w for w, _ in o_extend_constant(model, n, op["direction"])]
        elif kind == "extend_linspace":
            ia.extend_linspace(**_kw_dir(op["direction"]))
            want = o_extend_linspace(model, n, op["direction"])
            got = _vec(ia.array, tag, len(want))
            _compare(tag, got, want)
            # computed elements are adopted from the object once they are inside the tolerance; copies stay exact
            model = [g if tol is not None else w for g, (w, tol) in zip(got, want)]
        else:
            raise RuntimeError(f"unknown op {kind}")
        _state(ia, model, tag)
        # classes: an observer called again after the object changed (what a stale cache would get wrong)
        family = "grid" if kind in ("to_2d", "closed") else "count" if kind in ("len", "nfull") else None
        change = "write" if kind.startswith("set") else "extend" if kind.startswith("extend") else None
        if kind in _VIEWS and changed:
            nontrivial = True
            cls.update(f"{c}-then-view" for c in changed)
        if family:
            cls.update(f"{family},{c},{family}" for c in pending[family])
            seen.add(family)
            pending[family] = set()
        if change:
            changed.add(change)
            for f in seen:
                pending[f].add(change)
        cls.add("op:" + kind)
        done.append(kind)
    cls |= {"n=1" if n == 1 else "n=2" if n == 2 else "n=3..8" if n <= 8 else "n=9..16",
            "int64" if case["int"] else "float64", "list" if case["as_list"] else "ndarray",
            "len%n!=0" if len(a) % n else "len%n==0"}
    _rec(ctx, case, cls, nontrivial)


# budgets: the runner multiplies quick by TWV_QUICK_SCALE (3) and thorough by TWV_THOROUGH_SCALE (5):
# 750 / 20 000 cases per sub-check
SUBCHECKS = [
    Sub("oversample_linspace", "hyp", oversample_linspace_body, strategy=oversample_case, quick=250, thorough=4000,
        clause="n-fold oversampling keeps every original element at every n-th position, fills the gaps linearly"),
    Sub("oversample_piecewise", "hyp", oversample_piecewise_body, strategy=oversample_case, quick=250, thorough=4000,
        clause="n-fold oversampling keeps every original element and fills the gaps with the left value"),
    Sub("extend_linspace", "hyp", extend_linspace_body, strategy=extend_linspace_case, quick=250, thorough=4000,
        clause="extending adds exactly n per requested side, continues linearly (mirror point or explicit end value), "
               "original elements in the middle"),
    Sub("extend_constant", "hyp", extend_constant_body, strategy=extend_constant_case, quick=250, thorough=4000,
        clause="extending adds exactly n per requested side, continues constantly, original elements in the middle"),
    Sub("append_one_sample", "hyp", append_body, strategy=append_case, quick=250, thorough=4000,
        clause="appending one sample continues x by its last step and y by its last (periodic: first) value"),
    Sub("interval_index", "hyp", index_body, strategy=index_case, quick=250, thorough=4000,
        clause="the interval view maps [i, j] to flat index i*n+j (plain int: flat index) for reads and writes"),
    Sub("interval_views", "hyp", view_body, strategy=view_case, quick=250, thorough=4000,
        clause="row-by-row layout with NaN padding; closed-interval view = rows plus next row's first element, "
               "with/without the last row; number of full intervals; length"),
    Sub("integrals", "hyp", integral_body, strategy=integral_case, quick=250, thorough=4000,
        clause="rectangle / trapezoid rule, dispatcher and range sums equal the direct sums"),
    Sub("average", "hyp", average_body, strategy=average_case, quick=250, thorough=4000,
        clause="block averaging returns each row's mean ignoring the padding and each row's first abscissa"),
    Sub("roundtrip", "hyp", roundtrip_body, strategy=roundtrip_case, quick=250, thorough=4000,
        clause="averaging an n-fold piecewise-constant oversampling returns the input (x exactly, y to 2n ulp of each value)"),
    Sub("interval_methods", "hyp", methods_body, strategy=methods_case, quick=200, thorough=3000,
        clause="the same extension / oversampling contracts when reached through IntervalArray (one interval per "
               "side; oversampled view keeps original row starts)"),
    Sub("interval_history", "hyp", history_body, strategy=history_case, quick=250, thorough=4000,
        clause="reads, writes, 2-D views, length, full-interval count, iteration and extensions interleaved on ONE "
               "object agree with a plain list model after every step (a view taken after a write shows the write)"),
]
