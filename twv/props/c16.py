"""C16 - smoothing and the spline function respect the smoothing condition."""
import math
import warnings

import numpy as np
from hypothesis import strategies as st

from twv.runner import Sub, Violation
from twv.gens import fl, xs, ys

import traffic_weaver.process as process
from traffic_weaver import Weaver

PROPERTY = "C16"
LEVEL = "exploration"
RULE = ("Hypothesis builds series of 5..80 samples (eight spacing kinds incl. integer dtype, non-uniform gaps with "
        "max/min ratio <= 1e2, 1e6 offset; values: integers, dyadics, smooth + noise over seven decades of scale, "
        "ties, constant, sign-changing, 1e6 offset, pure sine, affine; ndarray / list / int64 containers) and a "
        "smoothing condition s = 0 (int or float), s log-uniform in [1e-4, 1e2], or s omitted (process level). "
        "Weaver.smooth(s), process.spline_smooth(x, y, s) and Weaver.to_function() (optionally after a shift/scale "
        "so that the working series differs from the original) are run on them. Non-trivial: for the smoothing "
        "condition 0 < s < residual of the least-squares cubic polynomial (the constraint is active); for "
        "to_function / s = 0 a non-affine series; for affine data a non-zero slope and s != 0; for the default s a "
        "series whose least-squares cubic leaves a residual. Distinct = distinct full input. Runs in which SciPy "
        "emits a FITPACK RuntimeWarning/UserWarning are counted as discarded_fitpack and not judged.")
ASSUMPTIONS = ["x strictly increasing with max/min gap ratio <= 1e2, >= 5 samples, s in {0} U [1e-4, 1e2]",
               "runs with a FITPACK non-convergence warning are discarded (2-3 % of the cases), as the statement says",
               "sum((z-y)^2) <= 1.002*s + 1e-12*sum(y^2) (measured max ratio 1.00098); identities 1e-8*max|y| "
               "(measured 8e-15); affine data 1e-8*(|p|*max|x|+|q|)",
               "default s: besides equality with the explicit s = len(y)*var(y) run (1e-6*max|y| at 50 probe points, "
               "measured 0), the result is compared with the least-squares cubic polynomial (1e-6*max|y|, measured "
               "1e-13): len(y)*var(y) is the residual of the best constant, hence at least that of the best cubic, "
               "and for such s the degree-3 smoothing spline is by definition that polynomial (FITPACK ier=-2)"]
TECHNIQUE = ("Hypothesis-generated series x smoothing conditions; the smoothing condition, the identities and the "
             "default-s clause are evaluated on the outputs (math.fsum residuals, closed-form affine map, NumPy "
             "least-squares cubic on a Legendre basis)")
LEVEL_TEXT = ("Randomized exploration: every clause is a condition on the output that is evaluated directly (summed "
              "squared deviation, pointwise identity, affine map), the default-s clause additionally against a "
              "least-squares cubic computed with numpy.linalg.lstsq. The input space is unbounded, so it is sampled; "
              "FITPACK non-convergence runs are excluded as stated.")
LEVEL_NOTE = ("trusts numpy.linalg.lstsq for the least-squares cubic, the stated tolerances, and SciPy's warnings as "
              "the non-convergence signal")


# ---- oracles / helpers (independent of traffic_weaver) -----------------------------------------------------------

class Fitpack:
    """records the warnings SciPy emits while fitting (the runner silences them otherwise)."""

    def __enter__(self):
        self._cm = warnings.catch_warnings(record=True)
        self.log = self._cm.__enter__()
        warnings.simplefilter("always")
        return self

    def __exit__(self, *exc):
        return self._cm.__exit__(*exc)

    @property
    def warned(self):
        return any(issubclass(w.category, (RuntimeWarning, UserWarning)) for w in self.log)


def lsq_cubic(x, y):
    """least-squares cubic polynomial of the samples; returns (evaluator, residual sum of squares)."""
    x = np.array(x, dtype=float)
    y = np.array(y, dtype=float)
    mid = (x[0] + x[-1]) / 2
    half = (x[-1] - x[0]) / 2
    basis = np.polynomial.legendre.legvander((x - mid) / half, 3)
    coef = np.linalg.lstsq(basis, y, rcond=None)[0]

    def ev(q):
        return np.polynomial.legendre.legvander((np.asarray(q, dtype=float) - mid) / half, 3) @ coef

    return ev, math.fsum(float(v) ** 2 for v in (ev(x) - y))


def sum_sq_dev(z, y):
    return math.fsum((float(a) - float(b)) ** 2 for a, b in zip(z, y))


def sum_sq(y):
    return math.fsum(float(v) ** 2 for v in y)


def n_times_var(y):
    m = len(y)
    mean = math.fsum(float(v) for v in y) / m
    return math.fsum((float(v) - mean) ** 2 for v in y)


def check_array(res, n, where):
    if not isinstance(res, np.ndarray):
        raise Violation(f"{where}: result is {type(res).__name__}, not ndarray")
    if res.shape != (n,):
        raise Violation(f"{where}: result shape {res.shape}, expected ({n},)")
    if not np.issubdtype(res.dtype, np.floating):
        raise Violation(f"{where}: result dtype {res.dtype}")
    if not np.all(np.isfinite(res)):
        raise Violation(f"{where}: non-finite values")
    return res


def check_close(got, want, tol, what):
    d = np.abs(np.asarray(got, dtype=float) - np.asarray(want, dtype=float))
    j = int(np.argmax(d))
    if not d[j] <= tol:
        raise Violation(f"{what}: at index {j} got {float(np.asarray(got)[j])!r}, expected "
                        f"{float(np.asarray(want)[j])!r} (|diff| {float(d[j]):.3g} > tolerance {tol:.3g})")


def check_condition(z, y, s, what):
    dev = sum_sq_dev(z, y)
    bound = 1.002 * s + 1e-12 * sum_sq(y)
    if not dev <= bound:
        raise Violation(f"{what}: sum((z-y)^2) = {dev!r} exceeds the smoothing condition s = {s!r} "
                        f"(allowed {bound!r})")
    return dev


# ---- generators ---------------------------------------------------------------------------------------------------

def _is_int(v):
    return float(v).is_integer() and abs(v) < 2 ** 40


@st.composite
def positive_s(draw):
    """log-uniform in [1e-4, 1e2]"""
    e = draw(st.sampled_from([-4, -3, -2, -1, 0, 1])) + draw(fl(0.0, 1.0))
    return min(max(10.0 ** e, 1e-4), 1e2)


@st.composite
def base(draw, ctx, ykind=None, nonconstant=False):
    m = draw(st.one_of(st.integers(5, 12), st.integers(5, 80)))
    xd = draw(xs(m, max_ratio=1e2))
    x = xd["x"]
    case = dict(x=x, xkind=xd["kind"], xint=bool(xd["int"]))
    kind = ykind or draw(st.sampled_from(["gens", "gens", "gens", "noisy", "noisy", "sine", "affine"]))
    if kind == "affine":
        p = draw(st.one_of(st.sampled_from([1.0, -1.0, 2.0, 0.5, -0.25, 3.0]),
                           st.builds(lambda sg, e: sg * 10.0 ** e, st.sampled_from([-1.0, 1.0]), fl(-3.0, 3.0)),
                           st.just(0.0)))
        c = draw(st.one_of(st.integers(-20, 20).map(float), fl(-1e3, 1e3)))
        case.update(y=[p * float(v) + c for v in x], ykind="affine", p=p, c=c)
    elif kind == "noisy":
        scale = 10.0 ** draw(fl(-1.5, 1.5))
        w = draw(fl(0.05, 1.5))
        ph = draw(fl(0.0, 6.28))
        amp = draw(fl(0.0, 1.0))
        noise = draw(st.lists(fl(-0.5, 0.5), min_size=m, max_size=m))
        case.update(y=[scale * (amp * math.sin(w * i + ph) + noise[i]) for i in range(m)], ykind="noisy")
    elif kind == "sine":
        scale = 10.0 ** draw(fl(-2.0, 3.0))
        w = draw(fl(0.05, 1.5))
        ph = draw(fl(0.0, 6.28))
        base_ = draw(fl(-2.0, 2.0))
        case.update(y=[scale * (base_ + math.sin(w * i + ph)) for i in range(m)], ykind="sine")
    else:
        yd = draw(ys(m, nonconstant=nonconstant))
        case.update(y=yd["y"], ykind=yd["kind"])
    case["xc"] = draw(st.sampled_from(["array", "array", "array", "list"]))
    yc = ["array", "array", "array", "list"]
    if all(_is_int(v) for v in case["y"]):
        yc.append("int")
    case["yc"] = draw(st.sampled_from(yc))
    return case


@st.composite
def smoothing(draw, zero_weight=1):
    mode = draw(st.sampled_from(["pos"] * 8 + ["special"] + ["zero"] * zero_weight))
    if mode == "zero":
        return draw(st.sampled_from([0, 0.0]))
    if mode == "special":
        return draw(st.sampled_from([1, 10, 100, 1e-4, 1e2, 0.5, 1.0]))
    return draw(positive_s())


@st.composite
def to_function_case(draw, ctx):
    case = draw(base(ctx))
    pre = draw(st.sampled_from([None, None, "shift_y", "scale_y", "scale_x"]))
    if pre == "shift_y":
        case["pre"] = ["shift_y", draw(st.one_of(st.builds(lambda sg, v: sg * float(v), st.sampled_from([-1, 1]),
                                                                st.integers(1, 50)), fl(-100.0, 100.0)))]
    elif pre == "scale_y":
        case["pre"] = ["scale_y", draw(st.sampled_from([2.0, 0.5, -1.0, 3.0, 10.0, -0.1]))]
    elif pre == "scale_x":
        case["pre"] = ["scale_x", draw(st.sampled_from([2.0, 0.5, 4.0]))]      # powers of two: x stays strict
    else:
        case["pre"] = None
    case["probe_t"] = draw(st.lists(fl(0.0, 1.0), min_size=1, max_size=12))
    case["scalar_at"] = draw(st.integers(0, len(case["x"]) - 1))
    case["explicit_zero"] = draw(st.sampled_from([None, None, 0, 0.0]))
    return case


@st.composite
def condition_case(draw, ctx):
    case = draw(base(ctx, nonconstant=True))
    case["s"] = draw(smoothing(zero_weight=1))
    return case


@st.composite
def identity_case(draw, ctx):
    case = draw(base(ctx))
    case["s"] = draw(st.sampled_from([0, 0.0]))
    return case


@st.composite
def affine_case(draw, ctx):
    case = draw(base(ctx, ykind="affine"))
    case["s"] = None if draw(st.sampled_from([0, 1, 2, 3])) == 0 else draw(smoothing(zero_weight=1))
    return case


@st.composite
def default_case(draw, ctx):
    return draw(base(ctx))


# ---- helpers ------------------------------------------------------------------------------------------------------

def inputs(case):
    x, y = case["x"], case["y"]
    if case["xc"] == "list":
        xi = list(x)
    else:
        xi = np.array(x, dtype=np.int64 if case["xint"] else float)
    if case["yc"] == "list":
        yi = list(y)
    elif case["yc"] == "int":
        yi = np.array([int(v) for v in y], dtype=np.int64)
    else:
        yi = np.array(y, dtype=float)
    return xi, yi


def common_classes(case):
    cls = {"x:" + case["xkind"], "y:" + case["ykind"], "xc:" + case["xc"], "yc:" + case["yc"]}
    x = case["x"]
    d = [b - a for a, b in zip(x[:-1], x[1:])]
    cls.add("x-uniform" if max(d) - min(d) <= 1e-9 * max(d) else "x-non-uniform")
    m = len(x)
    cls.add("m:5-8" if m <= 8 else "m:9-30" if m <= 30 else "m:31-80")
    return cls


def s_classes(case, resid):
    s = case.get("s")
    if s is None:
        return {"s:omitted"}
    if s == 0:
        return {"s:zero", "s:zero-" + type(s).__name__}
    cls = {"s:active(<cubic residual)" if s < resid else "s:inactive(huge)"}
    cls.add("s:[1e-4,1e-2)" if s < 1e-2 else "s:[1e-2,1)" if s < 1 else "s:[1,1e2]")
    if isinstance(s, int):
        cls.add("s:int-typed")
    return cls


def get_pair(w, where):
    out = w.get()
    if not (isinstance(out, tuple) and len(out) == 2):
        raise Violation(f"{where}: get() did not return a pair")
    return out


def smooth_both(ctx, case, s, judge):
    """Weaver.smooth(s) and process.spline_smooth(x, y, s)(x), each passed to judge(z, label) and then compared
    with each other; returns None when FITPACK warned."""
    xi, yi = inputs(case)
    m = len(case["x"])
    w = Weaver(xi, yi)
    with Fitpack() as fp:
        ret = w.smooth(s)
        fn = process.spline_smooth(xi, yi, s)
        direct = fn(np.asarray(xi)) if callable(fn) else None
    if fp.warned:
        ctx.count("discarded_fitpack")
        return None
    if ret is not w:
        raise Violation("Weaver.smooth did not return self")
    if not callable(fn):
        raise Violation(f"spline_smooth returned {type(fn).__name__}, not a callable")
    gx, gy = get_pair(w, "smooth")
    gx = np.asarray(gx)
    if gx.shape != (m,) or not np.array_equal(gx, np.asarray(xi)):
        raise Violation("Weaver.smooth changed x or the length", detail=dict(shape=list(gx.shape)))
    gy = check_array(gy, m, f"Weaver.smooth({s!r}).get() y")
    direct = check_array(direct, m, f"spline_smooth(x, y, {s!r})(x)")
    judge(gy, f"Weaver.smooth({s!r})")
    judge(direct, f"spline_smooth(x, y, {s!r})(x)")
    if not np.array_equal(gy, direct):
        raise Violation(f"Weaver.smooth({s!r}) differs from spline_smooth(x, y, {s!r}) evaluated at x",
                        detail=dict(maxdiff=float(np.max(np.abs(gy - direct)))))
    return gy


# ---- sub-check bodies -------------------------------------------------------------------------------------------------

def to_function_body(ctx, case):
    xi, yi = inputs(case)
    w = Weaver(xi, yi)
    if case["pre"]:
        getattr(w, case["pre"][0])(case["pre"][1])
    gx, gy = get_pair(w, "to_function")
    gx = np.asarray(gx, dtype=float)
    gy = np.asarray(gy, dtype=float)
    m = len(case["x"])
    if gx.shape != (m,) or gy.shape != (m,):
        raise Violation("get() changed the length before to_function")
    probes = np.array(sorted(float(gx[0]) + t * (float(gx[-1]) - float(gx[0])) for t in case["probe_t"]))
    k = case["scalar_at"]
    with Fitpack() as fp:
        f = w.to_function() if case["explicit_zero"] is None else w.to_function(case["explicit_zero"])
        if not callable(f):
            raise Violation(f"to_function returned {type(f).__name__}, not a callable")
        at_samples = f(gx)
        at_probes = f(probes)
        at_scalar = f(float(gx[k]))
        at_list = f([float(gx[0]), float(gx[-1])])
    if fp.warned:
        ctx.count("discarded_fitpack")
        return
    at_samples = check_array(np.asarray(at_samples), m, "to_function()(x)")
    scale = float(np.max(np.abs(gy)))
    check_close(at_samples, gy, 1e-8 * scale, "to_function() does not pass through the samples returned by get()")
    if case["pre"] is None:
        check_close(at_samples, np.array(case["y"], dtype=float), 1e-8 * scale,
                    "to_function() does not pass through the samples")
    check_array(np.asarray(at_probes), len(probes), "to_function() at points between the samples")
    sc = np.asarray(at_scalar, dtype=float)
    if sc.shape != () or not abs(float(sc) - float(gy[k])) <= 1e-8 * scale:
        raise Violation(f"to_function()({float(gx[k])!r}) = {at_scalar!r}, get() has {float(gy[k])!r} there")
    check_close(np.asarray(at_list, dtype=float).reshape(-1), [gy[0], gy[-1]], 1e-8 * scale,
                "to_function() at the two end samples (list argument)")
    after = get_pair(w, "to_function")
    if not (np.array_equal(np.asarray(after[0], dtype=float), gx) and np.array_equal(np.asarray(after[1], float), gy)):
        raise Violation("to_function changed the Weaver's series")
    cls = common_classes(case)
    cls.add("pre:" + (case["pre"][0] if case["pre"] else "none"))
    cls.add("s:default" if case["explicit_zero"] is None else "s:explicit-zero")
    _, resid = lsq_cubic(case["x"], case["y"])
    nt = resid > 1e-12 * sum_sq(case["y"])
    cls.add("non-cubic-data" if nt else "cubic-or-simpler-data")
    ctx.record(case, cls, nontrivial=nt)


def condition_body(ctx, case):
    s = case["s"]
    z = smooth_both(ctx, case, s, lambda v, label: check_condition(v, case["y"], s, label))
    if z is None:
        return
    dev = sum_sq_dev(z, case["y"])
    _, resid = lsq_cubic(case["x"], case["y"])
    cls = common_classes(case) | s_classes(case, resid)
    nt = 0 < s < resid
    if nt and dev >= 0.99 * s:
        cls.add("constraint-met-with-equality")
    ctx.record(case, cls, nontrivial=nt)


def identity_body(ctx, case):
    y = np.array(case["y"], dtype=float)
    tol = 1e-8 * float(np.max(np.abs(y)))
    z = smooth_both(ctx, case, case["s"], lambda v, label: check_close(v, y, tol, label + " is not the identity"))
    if z is None:
        return
    _, resid = lsq_cubic(case["x"], case["y"])
    cls = common_classes(case) | s_classes(case, resid)
    nt = resid > 1e-12 * sum_sq(case["y"])
    cls.add("non-cubic-data" if nt else "cubic-or-simpler-data")
    ctx.record(case, cls, nontrivial=nt)


def affine_body(ctx, case):
    s = case["s"]
    x, y = case["x"], np.array(case["y"], dtype=float)
    tol = 1e-8 * (abs(case["p"]) * max(abs(float(x[0])), abs(float(x[-1]))) + abs(case["c"]))
    if s is None:
        xi, yi = inputs(case)
        with Fitpack() as fp:
            fn = process.spline_smooth(xi, yi)
            z = fn(np.asarray(xi)) if callable(fn) else None
        if fp.warned:
            ctx.count("discarded_fitpack")
            return
        if not callable(fn):
            raise Violation(f"spline_smooth returned {type(fn).__name__}, not a callable")
        z = check_array(z, len(x), "spline_smooth(x, y)(x)")
        check_close(z, y, tol, f"affine data {case['p']!r}*x+{case['c']!r} changed by spline_smooth(x, y)(x)")
    else:
        z = smooth_both(ctx, case, s, lambda v, label: check_close(
            v, y, tol, f"affine data {case['p']!r}*x+{case['c']!r} changed by {label}"))
        if z is None:
            return
    cls = common_classes(case) | s_classes(case, 0.0)
    cls.add("slope-zero" if case["p"] == 0 else "slope-nonzero")
    ctx.record(case, cls, nontrivial=case["p"] != 0 and s != 0)


def default_body(ctx, case):
    xi, yi = inputs(case)
    x, y = case["x"], case["y"]
    s_ref = n_times_var(y)
    probes = np.linspace(float(x[0]), float(x[-1]), 50)
    with Fitpack() as fp:
        f_def = process.spline_smooth(xi, yi)
        f_exp = process.spline_smooth(xi, yi, s_ref)
        f_none = process.spline_smooth(xi, yi, s=None)
        if not (callable(f_def) and callable(f_exp) and callable(f_none)):
            raise Violation("spline_smooth did not return a callable")
        z_def, z_exp, z_none = f_def(probes), f_exp(probes), f_none(probes)
    if fp.warned:
        ctx.count("discarded_fitpack")
        return
    z_def = check_array(np.asarray(z_def), 50, "spline_smooth(x, y) at the probe points")
    z_exp = check_array(np.asarray(z_exp), 50, "spline_smooth(x, y, len*var) at the probe points")
    z_none = check_array(np.asarray(z_none), 50, "spline_smooth(x, y, s=None) at the probe points")
    scale = max(abs(float(v)) for v in y)
    check_close(z_def, z_exp, 1e-6 * scale,
                f"spline_smooth with s omitted differs from s = len(y)*var(y) = {s_ref!r}")
    check_close(z_none, z_exp, 1e-6 * scale,
                f"spline_smooth with s=None differs from s = len(y)*var(y) = {s_ref!r}")
    cubic, resid = lsq_cubic(x, y)
    check_close(z_def, cubic(probes), 1e-6 * scale,
                "spline_smooth with s omitted is not the smoothing spline for s = len(y)*var(y) (which is >= the "
                "residual of the least-squares cubic, so the fit is that cubic)")
    cls = common_classes(case)
    m = len(y)
    std = math.sqrt(s_ref / m)
    cls.add("std<1" if std < 1 else "std>=1")
    nt = resid > 1e-12 * sum_sq(y)
    if nt:
        if m * std < resid:
            cls.add("len*std < cubic residual")
        if std ** 2 < resid:
            cls.add("var < cubic residual")
        cls.add("noise-dominated" if resid > 0.5 * s_ref else "trend-dominated")
    else:
        cls.add("cubic-or-simpler-data")
    ctx.record(case, cls, nontrivial=nt)


SUBCHECKS = [
    Sub("to_function", "hyp", to_function_body, strategy=to_function_case, quick=400, thorough=8000,
        clause="to_function() with its default s passes through every sample and agrees with get()"),
    Sub("condition", "hyp", condition_body, strategy=condition_case, quick=400, thorough=8000,
        clause="smooth(s) keeps x and the length; sum of squared deviations <= s (0.1 % solver tolerance); the "
               "Weaver and the process function agree"),
    Sub("identity_s0", "hyp", identity_body, strategy=identity_case, quick=400, thorough=8000,
        clause="s = 0 is the identity"),
    Sub("affine", "hyp", affine_body, strategy=affine_case, quick=400, thorough=8000,
        clause="affine data are returned unchanged for every s (also omitted)"),
    Sub("default_s", "hyp", default_body, strategy=default_case, quick=400, thorough=8000,
        clause="s omitted means s = len(y)*var(y)"),
]
