"""C16 - smoothing and the spline function respect the smoothing condition."""
import math
import warnings

import numpy as np
from hypothesis import strategies as st

from twv.runner import Sub, Violation, digest
from twv.gens import fl, xs, ys

import traffic_weaver.process as process
from traffic_weaver import Weaver

PROPERTY = "C16"
LEVEL = "exploration"
RULE = ("Hypothesis builds series of 5..80 samples and, with ~6-10 % of the mass in condition / identity_s0 / default_s / "
        "history, long series of 1000, 1023..1025, 2047..2049, 2400, 4095..4097 or 5000 samples (thorough also "
        "8192, 8193) described by a formula (sine + hash noise of prescribed energy E0, expanded in the body) "
        "whose smoothing conditions are drawn within 0.7..1.3 of E0 so that FITPACK stays cheap; short series: (eight spacing kinds incl. integer dtype, non-uniform gaps with "
        "max/min ratio <= 1e2, 1e6 offset; values: integers, dyadics, smooth + noise over seven decades of scale, "
        "ties, constant, sign-changing, 1e6 offset, pure sine, affine, and 'bigoffset' = +-1e8..1e10 + O(1) sine + "
        "noise, |mean|/std >= 1e7; ndarray / list / int64 containers) and a "
        "smoothing condition s = 0 (int or float), s log-uniform in [1e-4, 1e2], or s omitted (process level). "
        "Weaver.smooth(s), process.spline_smooth(x, y, s) and Weaver.to_function() (optionally after a shift/scale "
        "so that the working series differs from the original) are run on them; the history sub-check applies 3..8 "
        "steps (shift_y, scale_y with |c| > 1 / < 1 / negative, smooth, trend, seeded noise, shift_x, scale_x, "
        "restore_original, append_one_sample(make_periodic True/False), repeat, truncate_by_index / _by_value "
        "keeping >= 5 samples, normalize_x / _y) to ONE Weaver, judges every smooth(s) step against the series just "
        "before it, and takes "
        "to_function() (default s / explicit 0) before and after several of them. Non-trivial: for the smoothing "
        "condition 0 < s < residual of the least-squares cubic polynomial (the constraint is active); for "
        "to_function / s = 0 a non-affine series; for affine data a non-zero slope and s != 0; for the default s a "
        "series whose least-squares cubic leaves a residual. Distinct = distinct full input. Runs in which SciPy "
        "emits a FITPACK RuntimeWarning/UserWarning are counted as discarded_fitpack and not judged.")
ASSUMPTIONS = ["x strictly increasing with max/min gap ratio <= 1e2, >= 5 samples, s in {0} U [1e-4, 1e2]",
               "runs with a FITPACK non-convergence warning are discarded (2-3 % of the cases), as the statement says",
               "tolerances are relative to the variation of the data, spread = max y - min y, plus a rounding term "
               "relative to max|y| (so a common offset of 1e9 hides nothing): sum((z-y)^2) <= 1.002*s + "
               "len(y)*(1e-12*max|y|)^2 (measured max ratio 1.00098, rounding floor rms 30 eps*max|y|); identities "
               "and to_function 1e-8*spread + 1e-12*max|y| (measured 38 eps*max|y|); affine data "
               "1e-8*|p|*(x_last-x_first) + 1e-11*(|p|*max|x|+|q|) (measured <= 5e-4 of it)",
               "default s: besides equality with the explicit s = len(y)*var(y) run (1e-6*spread + 1e-12*max|y| at 50 "
               "probe points, measured 0), the result is compared with the least-squares cubic polynomial fitted to "
               "the centred values (same tolerance, measured 430 eps*max|y|): len(y)*var(y) is the residual of the "
               "best constant, hence at least that of the best cubic, "
               "and for such s the degree-3 smoothing spline is by definition that polynomial (FITPACK ier=-2)",
               "history: steps are applied only when their documented preconditions hold for the current series "
               "(otherwise skipped and counted: >= 5 samples remain, abscissae stay distinct in float arithmetic, "
               "normalize_y on non-constant values, repeat up to 400 samples); on long series only steps whose effect "
               "on the noise energy the harness can follow, and smooth steps with s = rho*energy, rho in 0.7..1.3 or "
               "0; a violation seen once for a case is reported again if Hypothesis re-executes the same "
               "case in the same process (identity-keyed caching faults depend on memory addresses)"]
TECHNIQUE = ("Hypothesis-generated series x smoothing conditions; the smoothing condition, the identities and the "
             "default-s clause are evaluated on the outputs (math.fsum residuals, closed-form affine map, NumPy "
             "least-squares cubic on a Legendre basis)")
LEVEL_TEXT = ("Randomized exploration: every clause is a condition on the output that is evaluated directly (summed "
              "squared deviation, pointwise identity, affine map), the default-s clause additionally against a "
              "least-squares cubic computed with numpy.linalg.lstsq. The input space is unbounded, so it is sampled; "
              "FITPACK non-convergence runs are excluded as stated.")
LEVEL_NOTE = ("trusts numpy.linalg.lstsq for the least-squares cubic, the stated tolerances, and SciPy's warnings as "
              "the non-convergence signal")


# ---- oracles / helpers (independent of traffic_weaver) -----------------------------------------------------------

class Fitpack:
    """records the warnings SciPy emits while fitting (the runner silences them otherwise)."""

    def __enter__(self):
        self._cm = warnings.catch_warnings(record=True)
        self.log = self._cm.__enter__()
        warnings.simplefilter("always")
        return self

    def __exit__(self, *exc):
        return self._cm.__exit__(*exc)

    @property
    def warned(self):
        return any(issubclass(w.category, (RuntimeWarning, UserWarning)) for w in self.log)


def lsq_cubic(x, y):
    """least-squares cubic polynomial of the samples; returns (evaluator, residual sum of squares)."""
    x = np.array(x, dtype=float)
    y = np.array(y, dtype=float)
    mean = math.fsum(float(v) for v in y) / len(y)
    yc = y - mean            # the fit is done on centred values: a huge common offset costs no accuracy
    mid = (x[0] + x[-1]) / 2
    half = (x[-1] - x[0]) / 2
    basis = np.polynomial.legendre.legvander((x - mid) / half, 3)
    coef = np.linalg.lstsq(basis, yc, rcond=None)[0]

    def ev(q):
        return np.polynomial.legendre.legvander((np.asarray(q, dtype=float) - mid) / half, 3) @ coef + mean

    return ev, math.fsum(float(v) ** 2 for v in (basis @ coef - yc))


def sum_sq_dev(z, y):
    return math.fsum((float(a) - float(b)) ** 2 for a, b in zip(z, y))


def n_times_var(y):
    m = len(y)
    mean = math.fsum(float(v) for v in y) / m
    return math.fsum((float(v) - mean) ** 2 for v in y)


def spread(y):
    return max(float(v) for v in y) - min(float(v) for v in y)


def ymax(y):
    return max(abs(float(v)) for v in y)


def tol_for(y, rel):
    """rel * (max y - min y) + 1e-12 * max|y|: relative to the variation of the data, so that a huge common offset
    does not hide errors of the size of the signal, plus a rounding term (measured on the pinned tree: identities
    <= 38 eps*max|y|, default-s fit vs least-squares cubic <= 430 eps*max|y|; 1e-12 = 4500 eps)."""
    return rel * spread(y) + 1e-12 * ymax(y)


def has_residual(y, resid):
    """the least-squares cubic leaves a residual that is not rounding noise (measured relative to the variation)"""
    return resid > len(y) * (1e-6 * spread(y) + 1e-12 * ymax(y)) ** 2


def check_array(res, n, where):
    if not isinstance(res, np.ndarray):
        raise Violation(f"{where}: result is {type(res).__name__}, not ndarray")
    if res.shape != (n,):
        raise Violation(f"{where}: result shape {res.shape}, expected ({n},)")
    if not np.issubdtype(res.dtype, np.floating):
        raise Violation(f"{where}: result dtype {res.dtype}")
    if not np.all(np.isfinite(res)):
        raise Violation(f"{where}: non-finite values")
    return res


def check_close(got, want, tol, what):
    d = np.abs(np.asarray(got, dtype=float) - np.asarray(want, dtype=float))
    j = int(np.argmax(d))
    if not d[j] <= tol:
        raise Violation(f"{what}: at index {j} got {float(np.asarray(got)[j])!r}, expected "
                        f"{float(np.asarray(want)[j])!r} (|diff| {float(d[j]):.3g} > tolerance {tol:.3g})")


def check_condition(z, y, s, what):
    dev = sum_sq_dev(z, y)
    # rounding floor: every value of z carries an error of a few eps*max|y| (measured rms 30 eps): m*(1e-12*max|y|)^2
    bound = 1.002 * s + len(y) * (1e-12 * ymax(y)) ** 2
    if not dev <= bound:
        raise Violation(f"{what}: sum((z-y)^2) = {dev!r} exceeds the smoothing condition s = {s!r} "
                        f"(allowed {bound!r})")
    return dev


# ---- generators ---------------------------------------------------------------------------------------------------

def _is_int(v):
    return float(v).is_integer() and abs(v) < 2 ** 40


@st.composite
def positive_s(draw):
    """log-uniform in [1e-4, 1e2]"""
    e = draw(st.sampled_from([-4, -3, -2, -1, 0, 1])) + draw(fl(0.0, 1.0))
    return min(max(10.0 ** e, 1e-4), 1e2)


LONG_N = [2400, 5000, 2049, 4097, 1025, 4096, 2048, 1024, 1000, 1023, 2047, 4095]


@st.composite
def long_spec(draw, ctx):
    """A long series described by a dozen numbers (expanded in the body, see expand): abscissae unit / float step /
    repeated gap motif; values offset + snr*a*sin(periods turns over the range) + hash noise of amplitude a whose
    summed squared deviation from its mean is E0.  Smoothing conditions for such a series are chosen near E0: FITPACK then needs
    O(100) knots and a few hundredths of a second, whereas s far below the noise energy costs seconds to minutes."""
    return dict(n=draw(st.sampled_from(LONG_N + ctx.pick([], [8192, 8193]))),
                xk=draw(st.sampled_from(["unit", "fstep", "motif"])), x0=float(draw(st.integers(-50, 50))),
                h=draw(st.sampled_from([1.0, 0.25, 3.0, 0.01, 60.0])),
                gaps=draw(st.lists(st.sampled_from([0.5, 1.0, 1.5, 2.0, 7.0]), min_size=1, max_size=4)),
                periods=draw(fl(0.5, 5.0)), snr=10.0 ** draw(fl(0.5, 2.2)), phase=draw(fl(0.0, 6.28)),
                off=draw(st.sampled_from([0.0, 0.0, 100.0, -7.5])), E0=10.0 ** draw(fl(-2.5, 1.8)),
                seed=draw(st.integers(0, 10 ** 6)))


def expand(case):
    """full case (with x and y lists) of a compact long-series case; other cases are returned unchanged."""
    if "long" not in case or "x" in case:
        return case
    sp = case["long"]
    n = sp["n"]
    if sp["xk"] == "unit":
        x = [sp["x0"] + i for i in range(n)]
    elif sp["xk"] == "fstep":
        x = [sp["x0"] + i * sp["h"] for i in range(n)]
    else:
        x = [sp["x0"]]
        g = sp["gaps"]
        for i in range(n - 1):
            x.append(x[-1] + sp["h"] * g[i % len(g)])
    u = [math.fmod(math.sin(i * 12.9898 + sp["seed"]) * 43758.5453, 1.0) for i in range(n)]
    mean = math.fsum(u) / n
    a = math.sqrt(sp["E0"] / math.fsum((v - mean) ** 2 for v in u))
    # amplitude of the sine relative to the noise amplitude (3..160): with a much cleaner signal FITPACK needs many
    # knots to follow it to within s and takes seconds (measured 6.7 s at a ratio of 2500, n = 4096)
    sig = sp["snr"] * a
    y = [sp["off"] + sig * math.sin(2 * math.pi * sp["periods"] * i / n + sp["phase"]) + a * (u[i] - mean)
         for i in range(n)]
    return dict(case, x=x, y=y)


def expanding(body):
    """runs `body` on the expanded case but records the compact one in the evidence."""
    def wrapped(ctx, case):
        record = ctx.record
        ctx.record = lambda _c, classes=(), nontrivial=False: record(case, classes, nontrivial)
        try:
            body(ctx, expand(case))
        finally:
            del ctx.record
    wrapped.__name__ = body.__name__
    return wrapped


@st.composite
def base(draw, ctx, ykind=None, nonconstant=False, m_hi=80, offsets=True, long_weight=0):
    if long_weight and draw(st.sampled_from(range(16))) < long_weight:
        sp = draw(long_spec(ctx))
        return dict(long=sp, xkind="long-" + sp["xk"], ykind="long", xint=False, xc="array", yc="array")
    m = draw(st.one_of(st.integers(5, 12), st.integers(5, m_hi)))
    kind = ykind or draw(st.sampled_from(["gens", "gens", "gens", "noisy", "noisy", "sine", "affine", "bigoffset",
                                          "bigoffset", "byindex", "byindex", "affine-nonuniform", "const"]))
    if kind == "const" and nonconstant:
        kind = "byindex"
    if kind in ("byindex", "affine-nonuniform"):
        # clearly non-uniform spacing: "evenly stepped values" and "values on a straight line" are different things
        # there (y = a + b*i is an arithmetic progression by index but not affine in x)
        xd = draw(xs(m, ["dyadic", "motif", "loguni"], max_ratio=1e2, offsets=False))
        g = [q - p_ for p_, q in zip(xd["x"][:-1], xd["x"][1:])]
        if max(g) < 1.5 * min(g):                    # the drawn gaps happen to be (nearly) equal: stretch every other one
            x_ = [xd["x"][0]]
            for i, v in enumerate(g):
                x_.append(x_[-1] + (3.0 * v if i % 2 else v))
            xd = dict(xd, x=x_, kind=xd["kind"] + "-stretched")
    else:
        xd = draw(xs(m, max_ratio=1e2, offsets=offsets))
    x = xd["x"]
    case = dict(x=x, xkind=xd["kind"], xint=bool(xd["int"]))
    if kind == "byindex":
        a = draw(st.one_of(st.integers(-20, 20).map(float), fl(-1e3, 1e3)))
        b = draw(st.one_of(st.sampled_from([1.0, -1.0, 2.0, 0.5, 6.0]),
                           st.builds(lambda sg, e: sg * 10.0 ** e, st.sampled_from([-1.0, 1.0]), fl(-1.0, 2.0))))
        case.update(y=[a + b * i for i in range(m)], ykind="byindex")
    elif kind == "const":
        cst = draw(st.one_of(st.integers(-5, 5).map(float), fl(-1e3, 1e3)))
        case.update(y=[cst] * m, ykind="const")
    elif kind in ("affine", "affine-nonuniform"):
        p = draw(st.one_of(st.sampled_from([1.0, -1.0, 2.0, 0.5, -0.25, 3.0]),
                           st.builds(lambda sg, e: sg * 10.0 ** e, st.sampled_from([-1.0, 1.0]), fl(-3.0, 3.0)),
                           st.just(0.0)))
        c = draw(st.one_of(st.integers(-20, 20).map(float), fl(-1e3, 1e3)))
        case.update(y=[p * float(v) + c for v in x], ykind="affine", p=p, c=c)
        if kind == "affine-nonuniform":
            case["ykind"] = "affine-nonuniform"
    elif kind == "noisy":
        scale = 10.0 ** draw(fl(-1.5, 1.5))
        w = draw(fl(0.05, 1.5))
        ph = draw(fl(0.0, 6.28))
        amp = draw(fl(0.0, 1.0))
        noise = draw(st.lists(fl(-0.5, 0.5), min_size=m, max_size=m))
        case.update(y=[scale * (amp * math.sin(w * i + ph) + noise[i]) for i in range(m)], ykind="noisy")
    elif kind == "bigoffset":
        # |mean| / std between 1e6 and 1e10: one-pass variance formulas and float32 arithmetic lose everything
        off = draw(st.sampled_from([-1.0, 1.0])) * 10.0 ** draw(fl(8.0, 10.0))
        amp = 10.0 ** draw(fl(-0.5, 1.5))
        w = draw(fl(0.05, 1.5))
        ph = draw(fl(0.0, 6.28))
        a_sin = draw(fl(0.0, 1.0))
        noise = draw(st.lists(fl(-0.5, 0.5), min_size=m, max_size=m))
        case.update(y=[off + amp * (a_sin * math.sin(w * i + ph) + noise[i]) for i in range(m)], ykind="bigoffset")
    elif kind == "sine":
        scale = 10.0 ** draw(fl(-2.0, 3.0))
        w = draw(fl(0.05, 1.5))
        ph = draw(fl(0.0, 6.28))
        base_ = draw(fl(-2.0, 2.0))
        case.update(y=[scale * (base_ + math.sin(w * i + ph)) for i in range(m)], ykind="sine")
    else:
        yd = draw(ys(m, nonconstant=nonconstant))
        case.update(y=yd["y"], ykind=yd["kind"])
    case["xc"] = draw(st.sampled_from(["array", "array", "array", "list"]))
    yc = ["array", "array", "array", "list"]
    if all(_is_int(v) for v in case["y"]):
        yc.append("int")
    case["yc"] = draw(st.sampled_from(yc))
    return case


@st.composite
def smoothing(draw, zero_weight=1):
    mode = draw(st.sampled_from(["pos"] * 8 + ["special"] + ["zero"] * zero_weight))
    if mode == "zero":
        return draw(st.sampled_from([0, 0.0]))
    if mode == "special":
        return draw(st.sampled_from([1, 10, 100, 1e-4, 1e2, 0.5, 1.0]))
    return draw(positive_s())


@st.composite
def to_function_case(draw, ctx):
    case = draw(base(ctx))
    pre = draw(st.sampled_from([None, None, "shift_y", "scale_y", "scale_x"]))
    if pre == "shift_y":
        case["pre"] = ["shift_y", draw(st.one_of(st.builds(lambda sg, v: sg * float(v), st.sampled_from([-1, 1]),
                                                                st.integers(1, 50)), fl(-100.0, 100.0)))]
    elif pre == "scale_y":
        case["pre"] = ["scale_y", draw(st.sampled_from([2.0, 0.5, -1.0, 3.0, 10.0, -0.1]))]
    elif pre == "scale_x":
        case["pre"] = ["scale_x", draw(st.sampled_from([2.0, 0.5, 4.0]))]      # powers of two: x stays strict
    else:
        case["pre"] = None
    case["probe_t"] = draw(st.lists(fl(0.0, 1.0), min_size=1, max_size=12))
    case["scalar_at"] = draw(st.integers(0, len(case["x"]) - 1))
    case["explicit_zero"] = draw(st.sampled_from([None, None, 0, 0.0]))
    return case


@st.composite
def condition_case(draw, ctx):
    case = draw(base(ctx, nonconstant=True, long_weight=2))
    if "long" in case:
        # near the noise energy (see long_spec); 0.7..1.3 of it keeps the constraint active and the fit cheap
        case["s"] = min(max(draw(fl(0.7, 1.3)) * case["long"]["E0"], 1e-4), 1e2)
    else:
        case["s"] = draw(smoothing(zero_weight=1))
    return case


@st.composite
def identity_case(draw, ctx):
    case = draw(base(ctx, long_weight=1))
    case["s"] = draw(st.sampled_from([0, 0.0]))
    return case


@st.composite
def affine_case(draw, ctx):
    case = draw(base(ctx, ykind="affine"))
    case["s"] = None if draw(st.sampled_from([0, 1, 2, 3])) == 0 else draw(smoothing(zero_weight=1))
    return case


@st.composite
def default_case(draw, ctx):
    return draw(base(ctx, long_weight=1))


# ---- helpers ------------------------------------------------------------------------------------------------------

def inputs(case):
    x, y = case["x"], case["y"]
    if case["xc"] == "list":
        xi = list(x)
    else:
        xi = np.array(x, dtype=np.int64 if case["xint"] else float)
    if case["yc"] == "list":
        yi = list(y)
    elif case["yc"] == "int":
        yi = np.array([int(v) for v in y], dtype=np.int64)
    else:
        yi = np.array(y, dtype=float)
    return xi, yi


def common_classes(case):
    cls = {"x:" + case["xkind"], "y:" + case["ykind"], "xc:" + case["xc"], "yc:" + case["yc"]}
    x = case["x"]
    d = [b - a for a, b in zip(x[:-1], x[1:])]
    cls.add("x-uniform" if max(d) - min(d) <= 1e-9 * max(d) else "x-non-uniform")
    m = len(x)
    cls.add("m:5-8" if m <= 8 else "m:9-30" if m <= 30 else "m:31-999" if m < 1000 else "m:1000-2048" if m <= 2048
            else "m:2049-4096" if m <= 4096 else "m:>4096")
    return cls


def s_classes(case, resid):
    s = case.get("s")
    if s is None:
        return {"s:omitted"}
    if s == 0:
        return {"s:zero", "s:zero-" + type(s).__name__}
    cls = {"s:active(<cubic residual)" if s < resid else "s:inactive(huge)"}
    cls.add("s:[1e-4,1e-2)" if s < 1e-2 else "s:[1e-2,1)" if s < 1 else "s:[1,1e2]")
    if isinstance(s, int):
        cls.add("s:int-typed")
    return cls


def get_pair(w, where):
    out = w.get()
    if not (isinstance(out, tuple) and len(out) == 2):
        raise Violation(f"{where}: get() did not return a pair")
    return out


def smooth_both(ctx, case, s, judge):
    """Weaver.smooth(s) and process.spline_smooth(x, y, s)(x), each passed to judge(z, label) and then compared
    with each other; returns None when FITPACK warned."""
    xi, yi = inputs(case)
    m = len(case["x"])
    w = Weaver(xi, yi)
    with Fitpack() as fp:
        ret = w.smooth(s)
        fn = process.spline_smooth(xi, yi, s)
        direct = fn(np.asarray(xi)) if callable(fn) else None
    if fp.warned:
        ctx.count("discarded_fitpack")
        return None
    if ret is not w:
        raise Violation("Weaver.smooth did not return self")
    if not callable(fn):
        raise Violation(f"spline_smooth returned {type(fn).__name__}, not a callable")
    gx, gy = get_pair(w, "smooth")
    gx = np.asarray(gx)
    if gx.shape != (m,) or not np.array_equal(gx, np.asarray(xi)):
        raise Violation("Weaver.smooth changed x or the length", detail=dict(shape=list(gx.shape)))
    gy = check_array(gy, m, f"Weaver.smooth({s!r}).get() y")
    direct = check_array(direct, m, f"spline_smooth(x, y, {s!r})(x)")
    judge(gy, f"Weaver.smooth({s!r})")
    judge(direct, f"spline_smooth(x, y, {s!r})(x)")
    # both are judged against the statement above; that they agree is expected to rounding only (for s = 0 the
    # identity may be returned without fitting, and two fits of the same data may stop at slightly different points)
    sc = float(np.max(np.abs(direct))) + float(np.max(np.abs(gy))) + 1e-300
    if float(np.max(np.abs(gy - direct))) > 1e-6 * sc + 1e-3 * math.sqrt(max(float(s), 0.0)):
        raise Violation(f"Weaver.smooth({s!r}) differs from spline_smooth(x, y, {s!r}) evaluated at x",
                        detail=dict(maxdiff=float(np.max(np.abs(gy - direct)))))
    return gy


# ---- sub-check bodies -------------------------------------------------------------------------------------------------

def to_function_body(ctx, case):
    xi, yi = inputs(case)
    w = Weaver(xi, yi)
    if case["pre"]:
        getattr(w, case["pre"][0])(case["pre"][1])
    gx, gy = get_pair(w, "to_function")
    gx = np.asarray(gx, dtype=float)
    gy = np.asarray(gy, dtype=float)
    m = len(case["x"])
    if gx.shape != (m,) or gy.shape != (m,):
        raise Violation("get() changed the length before to_function")
    probes = np.array(sorted(float(gx[0]) + t * (float(gx[-1]) - float(gx[0])) for t in case["probe_t"]))
    k = case["scalar_at"]
    with Fitpack() as fp:
        f = w.to_function() if case["explicit_zero"] is None else w.to_function(case["explicit_zero"])
        if not callable(f):
            raise Violation(f"to_function returned {type(f).__name__}, not a callable")
        at_samples = f(gx)
        at_probes = f(probes)
        at_scalar = f(float(gx[k]))
        at_list = f([float(gx[0]), float(gx[-1])])
    if fp.warned:
        ctx.count("discarded_fitpack")
        return
    at_samples = check_array(np.asarray(at_samples), m, "to_function()(x)")
    tol = tol_for(gy, 1e-8)
    check_close(at_samples, gy, tol, "to_function() does not pass through the samples returned by get()")
    if case["pre"] is None:
        check_close(at_samples, np.array(case["y"], dtype=float), tol,
                    "to_function() does not pass through the samples")
    check_array(np.asarray(at_probes), len(probes), "to_function() at points between the samples")
    sc = np.asarray(at_scalar, dtype=float)
    if sc.shape != () or not abs(float(sc) - float(gy[k])) <= tol:
        raise Violation(f"to_function()({float(gx[k])!r}) = {at_scalar!r}, get() has {float(gy[k])!r} there")
    check_close(np.asarray(at_list, dtype=float).reshape(-1), [gy[0], gy[-1]], tol,
                "to_function() at the two end samples (list argument)")
    after = get_pair(w, "to_function")
    if not (np.array_equal(np.asarray(after[0], dtype=float), gx) and np.array_equal(np.asarray(after[1], float), gy)):
        raise Violation("to_function changed the Weaver's series")
    cls = common_classes(case)
    cls.add("pre:" + (case["pre"][0] if case["pre"] else "none"))
    cls.add("s:default" if case["explicit_zero"] is None else "s:explicit-zero")
    _, resid = lsq_cubic(case["x"], case["y"])
    nt = has_residual(case["y"], resid)
    cls.add("non-cubic-data" if nt else "cubic-or-simpler-data")
    ctx.record(case, cls, nontrivial=nt)


def condition_body(ctx, case):
    s = case["s"]
    z = smooth_both(ctx, case, s, lambda v, label: check_condition(v, case["y"], s, label))
    if z is None:
        return
    dev = sum_sq_dev(z, case["y"])
    _, resid = lsq_cubic(case["x"], case["y"])
    cls = common_classes(case) | s_classes(case, resid)
    nt = 0 < s < resid
    if nt and dev >= 0.99 * s:
        cls.add("constraint-met-with-equality")
    ctx.record(case, cls, nontrivial=nt)


def identity_body(ctx, case):
    y = np.array(case["y"], dtype=float)
    tol = tol_for(case["y"], 1e-8)
    z = smooth_both(ctx, case, case["s"], lambda v, label: check_close(v, y, tol, label + " is not the identity"))
    if z is None:
        return
    _, resid = lsq_cubic(case["x"], case["y"])
    cls = common_classes(case) | s_classes(case, resid)
    nt = has_residual(case["y"], resid)
    cls.add("non-cubic-data" if nt else "cubic-or-simpler-data")
    ctx.record(case, cls, nontrivial=nt)


def affine_body(ctx, case):
    s = case["s"]
    x, y = case["x"], np.array(case["y"], dtype=float)
    # relative to the variation of the affine data over the range, plus a rounding term relative to the magnitude of
    # the quantities p*x and q that formed the samples
    tol = (1e-8 * abs(case["p"]) * (float(x[-1]) - float(x[0]))
           + 1e-11 * (abs(case["p"]) * max(abs(float(x[0])), abs(float(x[-1]))) + abs(case["c"])))
    if s is None:
        xi, yi = inputs(case)
        with Fitpack() as fp:
            fn = process.spline_smooth(xi, yi)
            z = fn(np.asarray(xi)) if callable(fn) else None
        if fp.warned:
            ctx.count("discarded_fitpack")
            return
        if not callable(fn):
            raise Violation(f"spline_smooth returned {type(fn).__name__}, not a callable")
        z = check_array(z, len(x), "spline_smooth(x, y)(x)")
        check_close(z, y, tol, f"affine data {case['p']!r}*x+{case['c']!r} changed by spline_smooth(x, y)(x)")
    else:
        z = smooth_both(ctx, case, s, lambda v, label: check_close(
            v, y, tol, f"affine data {case['p']!r}*x+{case['c']!r} changed by {label}"))
        if z is None:
            return
    cls = common_classes(case) | s_classes(case, 0.0)
    cls.add("slope-zero" if case["p"] == 0 else "slope-nonzero")
    ctx.record(case, cls, nontrivial=case["p"] != 0 and s != 0)


def default_body(ctx, case):
    xi, yi = inputs(case)
    x, y = case["x"], case["y"]
    s_ref = n_times_var(y)
    probes = np.linspace(float(x[0]), float(x[-1]), 50)
    with Fitpack() as fp:
        f_def = process.spline_smooth(xi, yi)
        f_exp = process.spline_smooth(xi, yi, s_ref)
        f_none = process.spline_smooth(xi, yi, s=None)
        if not (callable(f_def) and callable(f_exp) and callable(f_none)):
            raise Violation("spline_smooth did not return a callable")
        z_def, z_exp, z_none = f_def(probes), f_exp(probes), f_none(probes)
    if fp.warned:
        ctx.count("discarded_fitpack")
        return
    z_def = check_array(np.asarray(z_def), 50, "spline_smooth(x, y) at the probe points")
    z_exp = check_array(np.asarray(z_exp), 50, "spline_smooth(x, y, len*var) at the probe points")
    z_none = check_array(np.asarray(z_none), 50, "spline_smooth(x, y, s=None) at the probe points")
    tol = tol_for(y, 1e-6)
    check_close(z_def, z_exp, tol,
                f"spline_smooth with s omitted differs from s = len(y)*var(y) = {s_ref!r}")
    check_close(z_none, z_exp, tol,
                f"spline_smooth with s=None differs from s = len(y)*var(y) = {s_ref!r}")
    cubic, resid = lsq_cubic(x, y)
    if s_ref < 1e-280 and spread(y) > 0:
        # the squares of values below 1e-140 underflow: len(y)*var(y) is 0 (or denormal) in floating point although
        # the data vary, s = 0 is then the correctly rounded default and means interpolation, not the cubic
        # (witness y = [0, 0, 0, 0, 6.4e-205]); only the comparison with the explicit s above applies
        ctx.count("variance-underflow: cubic comparison skipped")
    else:
        check_close(z_def, cubic(probes), tol,
                    "spline_smooth with s omitted is not the smoothing spline for s = len(y)*var(y) (which is >= the "
                    "residual of the least-squares cubic, so the fit is that cubic)")
    cls = common_classes(case)
    m = len(y)
    std = math.sqrt(s_ref / m)
    cls.add("std<1" if std < 1 else "std>=1")
    mean = math.fsum(float(v) for v in y) / m
    if std > 0:
        r = abs(mean) / std
        cls.add("|mean|/std<1e3" if r < 1e3 else "|mean|/std 1e3..1e7" if r < 1e7 else "|mean|/std>=1e7")
    nt = has_residual(y, resid)
    if nt:
        if m * std < resid:
            cls.add("len*std < cubic residual")
        if std ** 2 < resid:
            cls.add("var < cubic residual")
        cls.add("noise-dominated" if resid > 0.5 * s_ref else "trend-dominated")
    else:
        cls.add("cubic-or-simpler-data")
    ctx.record(case, cls, nontrivial=nt)


# ---- histories on one Weaver -------------------------------------------------------------------------------------

PROBE_T = [0.0, 0.13, 0.37, 0.5, 0.71, 0.9, 1.0]
NORM_RANGES = [[0.0, 1.0], [-1.0, 1.0], [10.0, 20.0], [0.0, 100.0], [-5.0, -1.0]]


def trend_fun(spec):
    kind = spec[0]
    if kind == "lin":
        return lambda t: spec[1] * t
    if kind == "quad":
        return lambda t: spec[1] * t * t
    return lambda t: spec[1] * math.sin(spec[2] * t)


@st.composite
def history_case(draw, ctx):
    case = draw(base(ctx, m_hi=40, offsets=False, nonconstant=True, long_weight=1))
    is_long = "long" in case
    if is_long:
        # on long series only steps whose effect on the noise energy the harness can follow, so that every smooth
        # step can be given an s near that energy (FITPACK needs seconds when s is far below it)
        ops = ["shift_y", "scale_y", "scale_y", "smooth", "smooth", "trend", "shift_x", "scale_x",
               "append_one_sample", "append_one_sample", "truncate_by_index"]
    else:
        ops = ["shift_y", "shift_y", "scale_y", "scale_y", "scale_y", "smooth", "smooth", "smooth", "trend", "noise",
               "shift_x", "scale_x", "restore_original", "append_one_sample", "append_one_sample", "repeat",
               "truncate_by_index", "truncate_by_value", "normalize_x", "normalize_y"]
    # what is taken after a step: nothing / to_function() / to_function(0) / to_function(s > 0) ("pos", short
    # series only) / the default to_function() of a NEW Weaver holding copies of the current samples ("new")
    tf = st.sampled_from([None, None, "default", "default", 0, 0.0] + ([] if is_long else ["pos", "pos", "new", "new"]))
    steps = []
    n = draw(st.integers(3, 8))
    for i in range(n):
        op = draw(st.sampled_from(ops))
        if op == "restore_original":
            step = dict(op=op)
        elif op == "append_one_sample":
            step = dict(op=op, periodic=draw(st.sampled_from([True, True, False])))
        elif op == "repeat":
            step = dict(op=op, arg=draw(st.sampled_from([1, 2, 2])))
        elif op in ("truncate_by_index", "truncate_by_value"):
            step = dict(op=op, u=draw(st.one_of(st.just(0.0), fl(0.0, 0.3))), v=draw(st.one_of(st.just(0.0), fl(0.0, 0.3))))
        elif op in ("normalize_x", "normalize_y"):
            step = dict(op=op, arg=draw(st.sampled_from(NORM_RANGES)))
        elif op == "shift_x":
            step = dict(op=op, arg=draw(st.one_of(st.integers(-64, 64).map(lambda k: k / 8.0), fl(-100.0, 100.0))))
        elif op == "scale_x":
            step = dict(op=op, arg=draw(st.sampled_from([2.0, 0.5, 4.0, 3.0, 1.5])))
        elif op == "shift_y":
            step = dict(op=op, arg=draw(st.one_of(st.sampled_from([1.0, -1.0, 0.5, 10.0, -3.0]), fl(-100.0, 100.0))))
        elif op == "scale_y":
            step = dict(op=op, arg=draw(st.sampled_from([2.0, 0.5, -1.0, 3.0, 10.0, -0.1, 1.5, -4.0, 0.25])))
        elif op == "smooth":
            if is_long:
                step = dict(op=op, rho=draw(st.one_of(st.just(0.0), fl(0.7, 1.3))))
            else:
                step = dict(op=op, arg=draw(smoothing(zero_weight=1)))
        elif op == "trend":
            spec = draw(st.one_of(st.tuples(st.just("lin"), fl(-5.0, 5.0)), st.tuples(st.just("quad"), fl(-5.0, 5.0)),
                                  st.tuples(st.just("sin"), fl(0.1, 5.0), fl(0.5, 12.0))))
            step = dict(op=op, arg=list(spec), normalized=True if spec[0] != "lin" else draw(st.booleans()))
        else:
            step = dict(op=op, arg=draw(fl(0.0, 40.0)), seed=draw(st.integers(0, 2 ** 31 - 1)))
        step["tf"] = draw(st.sampled_from(["default", "default", "new"] if not is_long else ["default"])) \
            if i == n - 1 else draw(tf)
        if step["tf"] == "pos":
            step["tf"] = ["pos", draw(st.one_of(positive_s(), st.sampled_from([1.0, 10.0, 100.0, 0.5])))]
        steps.append(step)
    case["steps"] = steps
    case["tf0"] = draw(st.sampled_from(["default", "default", 0, 0.0, None] + ([] if is_long else ["pos", "new"])))
    if case["tf0"] == "pos":
        case["tf0"] = ["pos", draw(st.one_of(positive_s(), st.sampled_from([1.0, 10.0, 100.0])))]
    return case


def strictly_increasing(v):
    return all(b > a for a, b in zip(v[:-1], v[1:]))


def apply_domain_step(w, step, limit=400):
    """Applies shift / scale / normalise / truncate / repeat / append / restore steps when their documented
    preconditions hold for the CURRENT series (decided on float copies, so it depends on the case only); returns
    'done', or 'skipped' when the step would leave fewer than 5 samples, merge abscissae, divide by a zero range or
    grow the series beyond `limit` samples."""
    op = step["op"]
    cx = [float(v) for v in w.get()[0]]
    m = len(cx)
    if op == "shift_x":
        if not strictly_increasing([v + step["arg"] for v in cx]):
            return "skipped"
        w.shift_x(step["arg"])
    elif op == "scale_x":
        if not strictly_increasing([v * step["arg"] for v in cx]):
            return "skipped"
        w.scale_x(step["arg"])
    elif op == "normalize_x":
        lo, hi = step["arg"]
        if not strictly_increasing([(v - cx[0]) / (cx[-1] - cx[0]) * (hi - lo) + lo for v in cx]):
            return "skipped"
        w.normalize_x(lo, hi)
    elif op == "normalize_y":
        # normalize_y rescales the working, the reference AND the original values, each by its own range: all three
        # must be non-constant (documented precondition min < max; 0/0 would plant NaN for a later restore_original)
        for arr in (w.get()[1], w.get_reference()[1], w.get_original()[1]):
            vals = [float(v) for v in arr]
            if not max(vals) > min(vals):
                return "skipped"
        w.normalize_y(step["arg"][0], step["arg"][1])
    elif op == "restore_original":
        w.restore_original()
    elif op == "append_one_sample":
        w.append_one_sample(make_periodic=step["periodic"])
    elif op == "repeat":
        if m * step["arg"] > limit:
            return "skipped"
        w.repeat(step["arg"])
    elif op == "truncate_by_index":
        start, stop = int(step["u"] * m), m - int(step["v"] * m)
        if stop - start < 5 or len(w.get_reference()[0]) != m:
            return "skipped"
        w.truncate_by_index(start, stop)
    elif op == "truncate_by_value":
        left = step["u"] * (cx[-1] - cx[0]) + cx[0]
        right = (1.0 - step["v"]) * (cx[-1] - cx[0]) + cx[0]
        li = max([i for i, v in enumerate(cx) if v <= left], default=0)
        ri = min([i for i, v in enumerate(cx) if v >= right], default=m - 1)
        if ri - li + 1 < 5 or not left < right:
            return "skipped"
        w.truncate_by_value(step["u"], 1.0 - step["v"], x_left_as_ratio=True, x_right_as_ratio=True)
    elif op == "shift_y":
        w.shift_y(step["arg"])
    elif op == "scale_y":
        w.scale_y(step["arg"])
    else:
        raise KeyError(op)
    return "done"


_FIRST_VERDICT = {}


def history_body(ctx, case):
    """A stale-cache fault keyed on object identities depends on which addresses the allocator hands out, so the same
    case can fail in one execution and pass in the next.  A violation that was observed is real; it is remembered per
    process and reported again when Hypothesis re-executes the identical case (otherwise Hypothesis would abort with
    'flaky' instead of reporting it).  Cases that pass are never remembered, and a replay in a new process
    (./check C16 --replay) evaluates the case afresh."""
    key = digest(case)
    msg = _FIRST_VERDICT.get(key)
    if msg is None:
        try:
            _history(ctx, case)
        except Violation as v:
            msg = _FIRST_VERDICT[key] = v.msg
    if msg is not None:
        # one raise site outside the except block: Hypothesis identifies a failure by exception type, line and context
        raise Violation(msg)


def _history(ctx, case):
    xi, yi = inputs(case)
    w = Weaver(xi, yi)
    snaps = []
    smooths = []
    positives = []
    flags = set()
    is_long = "long" in case
    energy = case["long"]["E0"] if is_long else None      # noise energy of a long series, followed through the steps

    def snapshot(tf, label):
        # only Python floats are kept: no reference to any array of the Weaver survives this call, so that the
        # arrays it replaces later are really released (an id()-keyed cache depends on that)
        xl = [float(v) for v in w.get()[0]]
        yl = [float(v) for v in w.get()[1]]
        if isinstance(tf, list):
            # to_function(s > 0): only the smoothing condition applies to it - and it must not change what a later
            # default call, on this or any other Weaver, returns
            f = w.to_function(tf[1])
            if not callable(f):
                raise Violation(f"{label}: to_function returned {type(f).__name__}, not a callable")
            positives.append((label.replace("to_function()", f"to_function({tf[1]!r})"), tf[1], yl,
                              np.asarray(f(xl), dtype=float).tolist()))
            return
        if tf == "new":
            f = Weaver(np.array(xl), np.array(yl)).to_function()
            label = label.replace("to_function()", "to_function() of a new Weaver on copies of the samples")
        else:
            f = w.to_function() if tf == "default" else w.to_function(tf)
        if not callable(f):
            raise Violation(f"{label}: to_function returned {type(f).__name__}, not a callable")
        probes = [xl[0] + t * (xl[-1] - xl[0]) for t in PROBE_T]
        vs, vp = f(xl), f(probes)
        snaps.append((label + (" [after an earlier to_function(s > 0)]" if positives else ""), xl, yl, probes,
                      np.asarray(vs, dtype=float).tolist(), np.asarray(vp, dtype=float).tolist()))
        if positives:
            flags.add("default to_function after to_function(s>0): " + ("new object" if tf == "new" else "same object"))

    with Fitpack() as fp:
        if case["tf0"] is not None:
            snapshot(case["tf0"], "to_function() on the new Weaver")
        done = []
        for step in case["steps"]:
            op = step["op"]
            if op == "trend":
                w.trend(trend_fun(step["arg"]), normalized=step["normalized"])
            elif op == "noise":
                np.random.seed(step["seed"])
                w.noise(step["arg"])
            elif op == "smooth":
                if is_long:
                    s_val = step["rho"] * energy
                    if s_val != 0 and not 1e-4 <= s_val <= 1e2:
                        ctx.count("long: matched s outside [1e-4, 1e2], smooth step skipped")
                        continue
                else:
                    s_val = step["arg"]
                # a judged step: the series just before the call is the input of the smoothing condition
                xb = [float(v) for v in w.get()[0]]
                yb = [float(v) for v in w.get()[1]]
                ret = w.smooth(s_val)
                if ret is not w:
                    raise Violation("Weaver.smooth did not return self")
                smooths.append(["smooth(%r) after %s" % (s_val, " > ".join(done) or "nothing"), s_val, xb,
                                yb, np.asarray(w.get()[0], dtype=float).tolist(),
                                np.asarray(w.get()[1], dtype=float).tolist()])
            else:
                before = len(w.get()[0])
                if apply_domain_step(w, step, limit=6000 if is_long else 400) == "skipped":
                    ctx.count("step skipped (precondition)")
                    continue
                if is_long and op == "scale_y":
                    energy *= step["arg"] ** 2
                if is_long and op == "truncate_by_index":
                    energy *= len(w.get()[0]) / before
            done.append(op if op != "append_one_sample" else op + ("(periodic)" if step["periodic"] else ""))
            cur = [float(v) for v in w.get()[0]]
            if len(cur) < 5 or not strictly_increasing(cur) or not all(math.isfinite(float(v)) for v in w.get()[1]):
                ctx.count("history-left-the-conditioned-range")
                return
            if step["tf"] is not None:
                snapshot(step["tf"], "to_function() after " + " > ".join(done))
        fresh = []
        for label, xl, yl, probes, vs, vp in snaps:
            g = Weaver(np.array(xl), np.array(yl)).to_function()
            fresh.append(np.asarray(g(probes), dtype=float).tolist())
        for rec in smooths:
            fn = process.spline_smooth(np.array(rec[2]), np.array(rec[3]), rec[1])
            rec.append(np.asarray(fn(np.array(rec[2])), dtype=float).tolist())
    if fp.warned:
        ctx.count("discarded_fitpack")
        return
    for label, s_val, yl, vs in positives:
        if len(vs) != len(yl) or not all(math.isfinite(v) for v in vs):
            raise Violation(f"{label}: the spline returns values of the wrong shape or non-finite values")
        check_condition(vs, yl, s_val, label + " evaluated at the samples")
    for label, s_val, xb, yb, xa, ya, direct in smooths:
        if xa != xb:
            raise Violation(f"{label} changed x or the length")
        if len(ya) != len(yb) or not all(math.isfinite(v) for v in ya):
            raise Violation(f"{label}: y has {len(ya)} samples instead of {len(yb)}, or non-finite values")
        check_condition(ya, yb, s_val, label)
        if s_val == 0:
            check_close(ya, yb, tol_for(yb, 1e-8), label + " is not the identity")
        sc_ = max(max(abs(v) for v in ya), max(abs(v) for v in direct)) + 1e-300
        if max(abs(a - b) for a, b in zip(ya, direct)) > 1e-6 * sc_ + 1e-3 * math.sqrt(max(float(s_val), 0.0)):
            raise Violation(f"{label} differs from spline_smooth(x, y, {s_val!r})(x) on copies of the series it was "
                            f"applied to", detail=dict(maxdiff=max(abs(a - b) for a, b in zip(ya, direct))))
    for (label, xl, yl, probes, vs, vp), fr in zip(snaps, fresh):
        m = len(xl)
        if len(yl) != m:
            raise Violation(f"{label}: get() returns {m} abscissae and {len(yl)} values")
        if len(vs) != m or len(vp) != len(probes) or not all(math.isfinite(v) for v in vs + vp):
            raise Violation(f"{label}: the spline returns values of the wrong shape or non-finite values")
        check_close(vs, yl, tol_for(yl, 1e-8), f"{label} does not pass through the current samples of get()")
        check_close(vp, fr, tol_for(yl, 1e-8),
                    f"{label} differs between the samples from the spline of a fresh Weaver holding the same samples")
    cls = common_classes(case)
    cls |= {"op:" + o for o in done}
    cls |= flags
    if positives:
        cls.add("to_function(s>0) calls")
    cls.add(f"to_function-calls:{min(len(snaps), 5)}{'+' if len(snaps) >= 5 else ''}")
    cls.add(f"judged-smooth-steps:{min(len(smooths), 3)}{'+' if len(smooths) >= 3 else ''}")
    seen = set()
    y_changers = {"trend", "noise", "smooth", "shift_y", "scale_y", "normalize_y"}
    for o in done:
        if o in y_changers and "append_one_sample(periodic)" in seen:
            seen.add("y-change after periodic append")
        if o == "smooth" and "y-change after periodic append" in seen:
            cls.add("smooth after periodic append + y change")
        seen.add(o)
    if "y-change after periodic append" in seen:
        cls.add("judged call after periodic append + y change")
    seen = set()
    for s_ in case["steps"]:
        if s_["op"] == "smooth" and s_.get("arg", s_.get("rho")) != 0:
            cls.add("smooth(s>0)")
            if "scale_y" in seen:
                cls.add("smooth(s>0) after scale_y(|c|!=1)")
            if "restore_original" in seen:
                cls.add("smooth(s>0) after restore_original")
            if seen & {"trend", "noise", "smooth"}:
                cls.add("smooth(s>0) after working != reference")
        if s_["op"] == "scale_y" and abs(s_["arg"]) != 1:
            seen.add("scale_y")
            cls.add("scale_y:|c|>1" if abs(s_["arg"]) > 1 else "scale_y:|c|<1")
            if s_["arg"] < 0:
                cls.add("scale_y:negative")
        elif s_["op"] in ("restore_original", "trend", "noise", "smooth", "shift_y"):
            seen.add(s_["op"])
    # two calls separated by >= 2 steps that replace y but not x (the address-reuse pattern)
    last, y_only = None, 0
    if case["tf0"] is not None:
        last = -1
    for i, s_ in enumerate(case["steps"]):
        if s_["op"] in ("shift_y", "scale_y", "noise", "smooth", "normalize_y"):
            y_only += 1
        else:
            y_only = -10 ** 6
        if s_["tf"] is not None:
            if last is not None and y_only >= 2:
                cls.add("calls-separated-by->=2-y-replacements")
            last, y_only = i, 0
    if any(s_["tf"] in (0, 0.0) and not isinstance(s_["tf"], (str, list)) for s_ in case["steps"]) \
            or (case["tf0"] in (0, 0.0) and not isinstance(case["tf0"], (str, list))):
        cls.add("explicit-s=0-call")
    ctx.record(case, cls, nontrivial=len(snaps) + len(smooths) + len(positives) >= 2)


SUBCHECKS = [
    Sub("to_function", "hyp", expanding(to_function_body), strategy=to_function_case, quick=250, thorough=5000,
        clause="to_function() with its default s passes through every sample and agrees with get()"),
    Sub("condition", "hyp", expanding(condition_body), strategy=condition_case, quick=350, thorough=5000,
        clause="smooth(s) keeps x and the length; sum of squared deviations <= s (0.1 % solver tolerance); the "
               "Weaver and the process function agree"),
    Sub("identity_s0", "hyp", expanding(identity_body), strategy=identity_case, quick=300, thorough=5000,
        clause="s = 0 is the identity"),
    Sub("affine", "hyp", expanding(affine_body), strategy=affine_case, quick=250, thorough=5000,
        clause="affine data are returned unchanged for every s (also omitted)"),
    Sub("default_s", "hyp", expanding(default_body), strategy=default_case, quick=300, thorough=5000,
        clause="s omitted means s = len(y)*var(y)"),
    Sub("history", "hyp", expanding(history_body), strategy=history_case, quick=350, thorough=5000,
        clause="during a history of 3..8 steps on ONE Weaver: to_function() passes through the current get() samples "
               "every time and equals the spline of a fresh Weaver on the same samples; every smooth(s) step keeps x, "
               "obeys the smoothing condition w.r.t. the series just before it, is the identity for s = 0 and equals "
               "spline_smooth on copies of that series"),
]
