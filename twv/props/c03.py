"""C03 - matching moves only interior samples, along the documented profile."""
import itertools
import math
from fractions import Fraction

import numpy as np
from hypothesis import strategies as st

from twv import matchgen, oracles
from twv.runner import Sub, Violation
from twv.props.c01 import run_case, check_result_shape

import traffic_weaver.match as match_mod
from traffic_weaver.match import integral_matching_reference_stretch

PROPERTY = "C03"
LEVEL = "exploration"
RULE = ("profile/linearity/idempotence: the C01 generator (all designation modes, rule pairs, alpha in [1/16,16], "
        "uniform and non-uniform spacing); kernel: every strictly increasing grid of 3..8 points on the lattice "
        "{0..11}/2 (thorough {0..15}/4) x integer exponents 1..3 x both rules, run on exact Fractions for the "
        "affine basis (unit vectors, unit target, zero) which fixes the affine map for all real y and targets, "
        "enumerated completely, plus Hypothesis-drawn rational (y, target). Non-trivial = some interval has a "
        "deficit > 1e-6 of its scale and >=2 interior samples at different distances from the centre; kernel "
        "cases: every (grid, exponent, rule) triple is distinct and non-trivial.")
ASSUMPTIONS = ["same input domain as C01",
               "fixed samples are 'unchanged' up to the rounding of the end weights (bound derived in DESIGN C03)",
               "kernel sub-checks address traffic_weaver.match._integral_matching_stretch by name; if it "
               "disappears they report 'kernel not addressable' and the float sub-checks alone decide"]
TECHNIQUE = ("Hypothesis-generated inputs against the closed-form displacement profile (least-squares "
             "proportionality, sign, bitwise untouched outside the span), metamorphic runs (idempotence, doubled "
             "deficit), and exhaustive exact-rational evaluation of the stretching kernel on a finite lattice")
LEVEL_TEXT = ("Randomized exploration of the public function with a closed-form oracle for the displacement "
              "profile, plus a complete enumeration of a small rational lattice where the kernel is evaluated in "
              "exact arithmetic on a basis that determines its action on all real inputs.")
LEVEL_NOTE = "trusts the closed form 1-(2|x-c|/width)^alpha as stated in the property and twv/oracles.py"

EPS = 2.0 ** -52


def weights(x, lo, hi, alpha):
    c = x[lo] + (x[hi] - x[lo]) / 2
    width = x[hi] - x[lo]
    return [1 - (2 * abs(x[i] - c) / width) ** alpha for i in range(lo, hi + 1)]


def profile_body(ctx, case):
    geo = matchgen.expected_geometry(case)
    if geo is None:
        ctx.count("degenerate-construction-skipped")
        return
    F, R = geo
    x = case["x"]
    y = np.array(case["y"], dtype=float)
    alpha = 1.0 if case["alpha"] is None else case["alpha"]
    # a quarter of the cases go through Weaver.integral_match (built in other units and converted first, see C01):
    # what the facade hands to the matcher - reference, exponent, designation - shapes the displacement profile
    z = run_case(case, via_facade=bool(case.get("facade")))
    z = np.asarray(z)
    check_result_shape(z, len(x))
    if case.get("facade"):
        ctx.count("via-facade")
    # (1) outside the span of the fixed points: bit for bit
    for i in list(range(0, F[0])) + list(range(F[-1] + 1, len(x))):
        if z[i] != y[i]:
            raise Violation(f"sample {i} outside the fixed span [{F[0]}, {F[-1]}] changed: {y[i]!r} -> {z[i]!r}")
    d = z - y
    gscale = float(np.max(np.abs(y)) + np.max(np.abs(z)))
    nontrivial = False
    yhats = matchgen.yhat_estimates(x, y, z, F, alpha)
    for j in range(len(F) - 1):
        lo, hi = F[j], F[j + 1]
        bands = matchgen.weight_bands(x, lo, hi, alpha)
        di = d[lo + 1:hi]
        yh, yh_lo, yh_hi, ref = yhats[j]
        dmax = float(np.max(np.abs(di)))
        # (2) proportional to the documented profile (weights known up to the rounding of the mid-abscissa)
        for k in range(len(di)):
            i = lo + 1 + k
            w, wlo, whi = bands[k + 1]
            corners = [yh_lo * wlo, yh_lo * whi, yh_hi * wlo, yh_hi * whi]
            tol = 1e-9 * dmax + 16 * matchgen.EPS * (abs(y[i]) + abs(z[i])) + 1e-13 * gscale
            if not (min(corners) - tol <= di[k] <= max(corners) + tol):
                raise Violation(f"interval {j}: displacement of sample {i} is {float(di[k])!r}, profile predicts "
                                f"{yh * w!r} (alpha={alpha}, tol {tol:.3g}, band {min(corners)!r}..{max(corners)!r})",
                                detail=dict(F=F, d=di.tolist(), w=[b[0] for b in bands[1:-1]]))
        # (3) one direction
        noise = 16 * matchgen.EPS * gscale
        signs = {math.copysign(1.0, v) for v in di if abs(v) > noise + 1e-9 * dmax}
        if len(signs) > 1:
            raise Violation(f"interval {j}: interior samples move in both directions", detail=dict(d=di.tolist()))
        if dmax > 1e-6 * gscale and len({round(b[0], 9) for b in bands[1:-1]}) >= 2:
            nontrivial = True
    # (4) fixed points unchanged up to the rounding of the end weights
    for jj, i in enumerate(F):
        bound = matchgen.fixed_point_bound(x, F, yhats, alpha, jj) + 4 * matchgen.EPS * abs(y[i])
        if abs(z[i] - y[i]) > bound:
            raise Violation(f"fixed sample {i} moved: {y[i]!r} -> {z[i]!r} (|diff| {abs(z[i] - y[i]):.3g} > "
                            f"{bound:.3g})")
    cls = matchgen.classes(case)
    ctx.record(case, cls, nontrivial)


def idempotence_body(ctx, case):
    geo = matchgen.expected_geometry(case)
    if geo is None:
        ctx.count("degenerate-construction-skipped")
        return
    x = case["x"]
    z = run_case(case)
    check_result_shape(z, len(x))
    case2 = dict(case, y=[float(v) for v in z], as_list=False, yint=False)
    geo2 = matchgen.expected_geometry(case2)
    z2 = run_case(case2)
    check_result_shape(z2, len(x))
    F = geo[0]
    alpha = 1.0 if case["alpha"] is None else case["alpha"]
    yhats = matchgen.yhat_estimates(x, case["y"], z, F, alpha)
    # global magnitude: neighbouring intervals leak rounding through the shared end samples
    scale = float(np.max(np.abs(z)) + np.max(np.abs(np.array(case["y_ref"])))) + 1e-300
    leak = max(matchgen.fixed_point_bound(x, F, yhats, alpha, jj) for jj in range(len(F)))
    for j in range(len(F) - 1):
        lo, hi = F[j], F[j + 1]
        dxmin = min(x[i + 1] - x[i] for i in range(lo, hi))
        amp = (x[hi] - x[lo]) / dxmin
        dev = float(np.max(np.abs(z2[lo:hi + 1] - z[lo:hi + 1])))
        tol = (1e-10 * scale + 4 * leak) * amp
        if dev > tol:
            raise Violation(f"matching an already matched function moved interval {j} by {dev:.3g} (tol {tol:.3g})")
    moved = float(np.max(np.abs(z - np.array(case["y"], dtype=float))))
    ctx.record(case, matchgen.classes(case), moved > 1e-6 * float(np.max(np.abs(z)) + 1e-300))


def linearity_body(ctx, case):
    """doubling the deficit doubles every displacement (search mode, on-grid reference, rectangle reference)"""
    case = dict(case, mode="search", strategy="closest", rr="rectangle", offgrid=False)
    case["x_ref"] = [case["x"][i] for i in case["fixed"]]
    case["y_ref"] = list(case["y_ref"])[:len(case["x_ref"])]
    while len(case["y_ref"]) < len(case["x_ref"]):
        case["y_ref"].append(1.0)
    geo = matchgen.expected_geometry(case)
    if geo is None:
        ctx.count("degenerate-construction-skipped")
        return
    F, R = geo
    x, y = case["x"], case["y"]
    z1 = run_case(case)
    check_result_shape(z1, len(x))
    yr2 = list(case["y_ref"])
    for j in range(len(F) - 1):
        pre = oracles.rule_integral(x, y, case["tr"], F[j], F[j + 1])
        dxr = case["x_ref"][j + 1] - case["x_ref"][j]
        target = case["y_ref"][j] * dxr
        yr2[j] = (pre + 2 * (target - pre)) / dxr
    case2 = dict(case, y_ref=yr2)
    z2 = run_case(case2)
    check_result_shape(z2, len(x))
    ya = np.array(y, dtype=float)
    d1, d2 = z1 - ya, z2 - ya
    dmax = float(np.max(np.abs(d1)))
    gscale = float(np.max(np.abs(ya)) + np.max(np.abs(z1)) + np.max(np.abs(z2)))
    tol = 1e-8 * dmax + 1e-11 * gscale
    bad = np.where(np.abs(d2 - 2 * d1) > tol)[0]
    if len(bad):
        i = int(bad[0])
        raise Violation(f"doubling the deficit: displacement of sample {i} went {d1[i]!r} -> {d2[i]!r}, expected "
                        f"{2 * d1[i]!r}")
    ctx.record(case, matchgen.classes(case), dmax > 1e-6 * gscale)


# ---- exact kernel -----------------------------------------------------------------------------------------------

def _kernel():
    return getattr(match_mod, "_integral_matching_stretch", None)


def kernel_cases(ctx, shard, nshards):
    npts, den = ctx.pick((12, 2), (16, 4))
    idx = 0
    for size in range(3, 9):
        for grid in itertools.combinations(range(npts), size):
            for alpha in (1, 2, 3):
                for rule in ("trapezoid", "rectangle"):
                    if idx % nshards == shard:
                        yield dict(grid=list(grid), den=den, alpha=alpha, rule=rule)
                    idx += 1


def _frac_array(vals):
    a = np.empty(len(vals), dtype=object)
    for i, v in enumerate(vals):
        a[i] = Fraction(v)
    return a


def _exact_rule_integral(x, z, rule):
    tot = Fraction(0)
    for i in range(len(x) - 1):
        dx = x[i + 1] - x[i]
        tot += (z[i] * dx) if rule == "rectangle" else ((z[i] + z[i + 1]) / 2 * dx)
    return tot


def kernel_check(x, y, target, alpha, rule, ctx=None):
    kern = _kernel()
    exact = True
    try:
        raw = kern(_frac_array(x), _frac_array(y), integral_value=Fraction(target), integral_method=rule, alpha=alpha)
        exact = all(isinstance(v, (Fraction, int)) and not isinstance(v, bool) for v in raw)
    except Exception:  # noqa: BLE001 - a kernel that does not compute on rationals is judged on floats below
        exact = False
        raw = None
    if not exact:
        # the kernel coerces to floating point (or refuses object arrays): the same clauses, to rounding
        return kernel_check_float(x, y, target, alpha, rule, ctx)
    z = [Fraction(v) for v in raw]
    n = len(x)
    if len(z) != n:
        raise Violation(f"kernel returned {len(z)} values for {n} samples")
    if z[0] != y[0] or z[-1] != y[-1]:
        raise Violation(f"kernel moved an end point: {y[0]}->{z[0]}, {y[-1]}->{z[-1]}",
                        detail=dict(x=[str(v) for v in x]))
    got = _exact_rule_integral(x, z, rule)
    if got != target:
        raise Violation(f"kernel: {rule} integral of result {got} != target {target}",
                        detail=dict(x=[str(v) for v in x], y=[str(v) for v in y]))
    c = (x[0] + x[-1]) / 2
    width = x[-1] - x[0]
    w = [1 - (2 * abs(v - c) / width) ** alpha for v in x]
    d = [a - b for a, b in zip(z, y)]
    for i in range(1, n - 1):
        for j in range(i + 1, n - 1):
            if d[i] * w[j] != d[j] * w[i]:
                raise Violation(f"kernel: displacements not proportional to 1-(2|x-c|/width)^{alpha}: "
                                f"d{i}={d[i]}, d{j}={d[j]}, w{i}={w[i]}, w{j}={w[j]}",
                                detail=dict(x=[str(v) for v in x]))
    pre = _exact_rule_integral(x, y, rule)
    if target != pre:
        s = {(v > 0) for v in d[1:-1] if v != 0}
        if len(s) != 1 or (target > pre) not in s:
            raise Violation("kernel: interior samples not all displaced towards the target")
    return z


def kernel_check_float(x, y, target, alpha, rule, ctx=None):
    """the kernel clauses in floating point (tolerance 1e-9 of the magnitudes involved); exact rational expectations"""
    if ctx is not None:
        ctx.count("kernel-judged-in-floats")
    kern = _kernel()
    xf = np.array([float(v) for v in x])
    yf = np.array([float(v) for v in y])
    z = np.asarray(kern(xf, yf.copy(), integral_value=float(target), integral_method=rule, alpha=alpha), dtype=float)
    n = len(x)
    if z.shape != (n,):
        raise Violation(f"kernel returned shape {z.shape} for {n} samples")
    pre = _exact_rule_integral(x, y, rule)
    width = x[-1] - x[0]
    c = (x[0] + x[-1]) / 2
    w = [1 - (2 * abs(v - c) / width) ** alpha for v in x]
    # expected result in exact arithmetic: y + y_hat * w with the rule integral of w as normaliser
    wint = _exact_rule_integral(x, w, rule)
    if wint == 0:
        return z
    yhat = (Fraction(target) - pre) / wint
    want = [float(a + yhat * b) for a, b in zip(y, w)]
    scale = max(max(abs(v) for v in want), max(abs(float(v)) for v in y), abs(float(yhat)), 1e-300)
    for i in range(n):
        if abs(z[i] - want[i]) > 1e-9 * scale:
            what = "moved an end point" if i in (0, n - 1) else f"displacement of sample {i} off the documented profile"
            raise Violation(f"kernel (floats): {what}: got {z[i]!r}, exact rational expectation {want[i]!r}",
                            detail=dict(x=[str(v) for v in x], y=[str(v) for v in y], target=str(target)))
    return z


def kernel_body(ctx, case):
    if _kernel() is None:
        ctx.count("kernel-not-addressable")
        ctx.record(case, ["kernel-not-addressable"], False)
        return
    x = [Fraction(g, case["den"]) for g in case["grid"]]
    n = len(x)
    alpha, rule = case["alpha"], case["rule"]
    zero = [Fraction(0)] * n
    z00 = kernel_check(x, zero, 0, alpha, rule, ctx)
    if any(v != 0 for v in z00):
        raise Violation("kernel: zero function with zero target is not returned unchanged")
    kernel_check(x, zero, 1, alpha, rule, ctx)
    for i in range(n):
        e = list(zero)
        e[i] = Fraction(1)
        kernel_check(x, e, 0, alpha, rule, ctx)
    # one deterministic generic rational vector: confirms affinity beyond the basis
    y = [Fraction(((i * 7 + 3 * alpha + n) % 11) - 5, 3) for i in range(n)]
    kernel_check(x, y, Fraction(n - 4, 7), alpha, rule, ctx)
    ctx.record(case, [f"n={n}", f"alpha={alpha}", rule], True)


@st.composite
def kernel_random_case(draw, ctx):
    n = draw(st.integers(3, 8))
    den = draw(st.sampled_from([1, 2, 3, 4, 7, 10]))
    steps = draw(st.lists(st.integers(1, 9), min_size=n - 1, max_size=n - 1))
    x0 = draw(st.integers(-20, 20))
    grid = [x0]
    for s in steps:
        grid.append(grid[-1] + s)
    y = [[draw(st.integers(-50, 50)), draw(st.integers(1, 9))] for _ in range(n)]
    target = [draw(st.integers(-100, 100)), draw(st.integers(1, 9))]
    return dict(grid=grid, den=den, y=y, target=target, alpha=draw(st.integers(1, 4)),
                rule=draw(st.sampled_from(["trapezoid", "rectangle"])))


def kernel_random_body(ctx, case):
    if _kernel() is None:
        ctx.count("kernel-not-addressable")
        ctx.record(case, ["kernel-not-addressable"], False)
        return
    x = [Fraction(g, case["den"]) for g in case["grid"]]
    y = [Fraction(a, b) for a, b in case["y"]]
    target = Fraction(*case["target"])
    kernel_check(x, y, target, case["alpha"], case["rule"], ctx)
    uniform = len({b - a for a, b in zip(case["grid"][:-1], case["grid"][1:])}) == 1
    ctx.record(case, [f"alpha={case['alpha']}", case["rule"], "uniform" if uniform else "non-uniform"],
               target != _exact_rule_integral(x, y, case["rule"]))


def siblings_body(ctx, case):
    from twv.props.c01 import _Quiet
    q = _Quiet(ctx)
    profile_body(q, case["a"])
    profile_body(q, case["b"])
    profile_body(q, case["a"])
    ctx.record(case, matchgen.classes(case["a"]) + ["moved" if case["moved"] else "identical-sibling"], case["moved"])


SUBCHECKS = [
    Sub("profile", "hyp", profile_body, strategy=lambda ctx: matchgen.match_case(ctx), quick=1500, thorough=30000,
        clause="outside span bitwise unchanged; fixed points unchanged to rounding; interior displacement one-signed "
               "and proportional to 1-(2|x-c|/width)^alpha"),
    Sub("siblings", "hyp", siblings_body, strategy=matchgen.sibling_pair, quick=400, thorough=8000,
        clause="fixed points and profile of one matching do not depend on matchings done before"),
    Sub("idempotence", "hyp", idempotence_body, strategy=lambda ctx: matchgen.match_case(ctx), quick=500,
        thorough=10000, clause="matching an already matched function changes nothing"),
    Sub("linearity", "hyp", linearity_body, strategy=lambda ctx: matchgen.match_case(ctx), quick=400, thorough=8000,
        clause="displacement is linear in the deficit (doubling it doubles every displacement)"),
    Sub("kernel_lattice", "enum", kernel_body, cases=kernel_cases, shards=16, exhaustive=True,
        clause="exact rational kernel: ends fixed, target integral hit, displacement exactly proportional"),
    Sub("kernel_random", "hyp", kernel_random_body, strategy=kernel_random_case, quick=300, thorough=6000,
        clause="same on Hypothesis-drawn rational grids, values and targets, exponents 1..4"),
]
