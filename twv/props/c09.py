"""C09 - Weaver state stays well-formed; caller data and the original are never corrupted."""
from twv import progmachine as pm
from twv.runner import Sub

PROPERTY = "C09"
LEVEL = "exploration"
RULE = ("Hypothesis rule-based state machine: programs of up to 10 operations over the 17 operation kinds of the "
        "public Weaver API (ten domain operations, recreate with the six strategies, integral_match, interpolate "
        "with four methods and n or new_x as list/array, smooth, trend, noise with scalar/per-sample snr, "
        "restore_original) on series of 4..40 points handed over as int/float ndarrays or lists; every rule is "
        "guarded by the operation's documented precondition evaluated on the observable state; invariants after "
        "every step. Non-trivial = a reshaping operation followed by a domain operation, or a restore followed by "
        ">= 2 operations; distinct = distinct trace.")
ASSUMPTIONS = ["only documented-valid programs: scale_x > 0, scale_y != 0, min_val < max_val on non-constant data, "
               "integral_match only when every reference abscissa selects its own closest sample with an interior "
               "sample between neighbours, spline methods / smoothing with >= 5 samples, truncations leaving >= 4 "
               "working and >= 2 reference samples, length <= 600, abscissae stay distinguishable (gap >= 1e-9*|x|)",
               "restore equivalence is judged bitwise against a twin Weaver built from copies of get_original() "
               "and fed the same operations (NumPy's global RNG re-seeded from the drawn integer before each noise)"]
TECHNIQUE = "stateful property-based testing (Hypothesis RuleBasedStateMachine) with per-step invariants and a " \
            "differential twin object for the restore-equivalence clause"
LEVEL_TEXT = ("Exploration of operation histories over the whole public API: per-step invariants (well-formed "
              "processed series, caller's arrays bitwise intact, stored original intact) and a differential oracle "
              "(restored object vs freshly constructed twin) that needs no model of the operations.")
LEVEL_NOTE = "trusts the precondition predicates in twv/progmachine.py (admissible) to describe valid programs"


def body(ctx, case):
    pm.replay(ctx, case)


SUBCHECKS = [
    Sub("programs", "machine", body, machine=lambda ctx: pm.make_machine(ctx), quick=2000, thorough=32000,
        steps=(14, 14),
        clause="processed series well-formed after every step; caller arrays and stored original never modified; "
               "after restore_original the object behaves like a new one on get_original()"),
]
