"""C20 - invalid requests are refused with ValueError and leave the Weaver untouched."""
import numpy as np
from hypothesis import strategies as st

from twv import gens, progmachine as pm
from twv.gens import fl
from twv.runner import Sub, Violation

from traffic_weaver import Weaver
import traffic_weaver.sorted_array_utils as sau
import traffic_weaver.process as process
import traffic_weaver.match as match_mod
import traffic_weaver.rfa as rfa_mod

PROPERTY = "C20"
LEVEL = "exploration"
RULE = ("machine: the C09 state machine (valid operations build a non-trivial state, incl. the 'spans differ' state "
        "after recreate + off-grid truncation) extended with one invalid rule per class: recreate n in {1,0,-1,-2} "
        "for every strategy; integral_match with unknown target rule / reference rule / search strategy (in states "
        "where matching is otherwise valid), fixed positions not in x, more fixed positions/indices than samples; "
        "truncate_by_value with left >= right in all ratio/absolute combinations, inverted for the working series, "
        "the reference only, or both; index bounds out of range; slice_by_value with an absent value; interpolate "
        "with unknown method, different end points, or neither n nor new_x. stateless: constructor / from_2d_array / "
        "dispatchers / load_dataset with invalid arguments. Non-trivial = rejected call issued after >= 2 valid "
        "operations of different kinds; distinct = distinct trace.")
ASSUMPTIONS = ["the surrounding arguments of every invalid call are valid", "state = get(), get_reference(), "
               "get_original() compared bitwise incl. dtype and container type before/after the rejected call"]
TECHNIQUE = "stateful property-based testing: invalid requests injected into generated valid histories; oracle = " \
            "exception type is ValueError and a bitwise state snapshot is unchanged"
LEVEL_TEXT = ("Exploration of histories with injected invalid requests; the oracle is exact (exception type, bitwise "
              "snapshot) and the machine continues with valid operations so latent corruption trips the C09 "
              "invariants too.")
LEVEL_NOTE = "invalid-argument classes are exactly those listed in the statement"


def body(ctx, case):
    pm.replay(ctx, case, reject_mode=True)


# ---- stateless rejections ------------------------------------------------------------------------------------------

@st.composite
def stateless_case(draw, ctx):
    kind = draw(st.sampled_from(["ctor_lengths", "from_2d_shape", "integral_name", "search_name", "interpolate_name",
                                 "dataset_name", "rfa_n", "match_direct"]))
    s = draw(gens.series(3, 12, allow_int=False))
    case = dict(kind=kind, x=s["x"], y=s["y"])
    if kind == "ctor_lengths":
        case["drop"] = draw(st.integers(1, 2))
        case["which"] = draw(st.sampled_from(["x", "y"]))
        case["as_list"] = draw(st.booleans())
    elif kind == "from_2d_shape":
        case["shape"] = draw(st.sampled_from(["(N,)", "(N,3)", "(N,1)", "(N,2,2)", "(2,N)", "(2,)", "(4,)", "()", "(1,)",
                                              "(1,2,1)", "(2,1)"]))
    elif kind in ("integral_name", "search_name", "interpolate_name"):
        case["name"] = draw(st.sampled_from(["bogus", "", "no-such-option", "simpson3/8", "median", "42"]))
    elif kind == "dataset_name":
        case["name"] = draw(st.sampled_from(["", "sandvine", "sandvine_", "sandvine-tik-tok", "mix-it", "ams-ix_dailyy",
                                             "ix-br-aggregated", "sandvine_dataset_description", "load_dataset",
                                             "mix_it_dataset_description", "unknown", "fetch_ams_ix_daily"]))
    elif kind == "rfa_n":
        case["strategy"] = draw(st.sampled_from(gens.STRATEGY_NAMES))
        case["n"] = draw(st.sampled_from([1, 0, -1, -2]))
    else:
        case["what"] = draw(st.sampled_from(["target", "reference", "search", "not_in_x", "too_many_x", "too_many_idx"]))
        case["name"] = draw(st.sampled_from(["bogus", "", "no-such-option"]))
    return case


def _expect_value_error(fn, what):
    try:
        fn()
    except ValueError:
        return
    except Exception as e:  # noqa: BLE001
        raise Violation(f"{what} raised {type(e).__name__} instead of ValueError: {e}")
    raise Violation(f"{what} was accepted")


def stateless_body(ctx, case):
    k = case["kind"]
    x = np.array(case["x"], dtype=float)
    y = np.array(case["y"], dtype=float)
    if k == "ctor_lengths":
        xx, yy = (x[:-case["drop"]], y) if case["which"] == "x" else (x, y[:-case["drop"]])
        if case["as_list"]:
            xx, yy = xx.tolist(), yy.tolist()
        _expect_value_error(lambda: Weaver(xx, yy), f"Weaver(x[{len(xx)}], y[{len(yy)}])")
    elif k == "from_2d_shape":
        n = len(x)
        arr = {"(N,)": x, "(N,3)": np.column_stack([x, y, y]), "(N,1)": x.reshape(n, 1),
               "(N,2,2)": np.zeros((n, 2, 2)), "(2,N)": np.vstack([x, y]), "(2,)": x[:2].copy(), "(4,)": np.append(x[:2], y[:2]),
               "()": np.array(x[0]), "(1,)": x[:1].copy(), "(1,2,1)": x[:2].reshape(1, 2, 1),
               "(2,1)": x[:2].reshape(2, 1)}[case["shape"]]
        if arr.ndim == 2 and arr.shape[1] == 2:
            ctx.count("shape-happens-to-be-valid")
            return
        _expect_value_error(lambda: Weaver.from_2d_array(arr), f"Weaver.from_2d_array(shape {arr.shape})")
    elif k == "integral_name":
        if case["name"] in ("trapezoid", "rectangle"):
            return
        _expect_value_error(lambda: sau.integral(x, y, case["name"]), f"integral(method={case['name']!r})")
    elif k == "search_name":
        if case["name"] in ("closest", "lower", "higher"):
            return
        _expect_value_error(lambda: sau.find_closest_element_indices_to_values(x, [float(x[0])], strategy=case["name"]),
                            f"find_closest_element_indices_to_values(strategy={case['name']!r})")
    elif k == "interpolate_name":
        if case["name"] in ("linear", "constant", "cubic", "spline"):
            return
        _expect_value_error(lambda: process.interpolate(x, y, x, method=case["name"]),
                            f"process.interpolate(method={case['name']!r})")
    elif k == "dataset_name":
        from traffic_weaver.datasets import load_dataset
        _expect_value_error(lambda: load_dataset(case["name"]), f"load_dataset({case['name']!r})")
    elif k == "rfa_n":
        cls = getattr(rfa_mod, case["strategy"])
        _expect_value_error(lambda: cls(x, y, case["n"]), f"{case['strategy']}(n={case['n']!r})")
    else:
        xs = np.linspace(x[0], x[-1], 4 * (len(x) - 1) + 1)
        ys = np.interp(xs, x, y)
        f = match_mod.integral_matching_reference_stretch
        w = case["what"]
        if w == "target":
            _expect_value_error(lambda: f(xs, ys, x, y, target_function_integral_method=case["name"]),
                                f"integral matching with target rule {case['name']!r}")
        elif w == "reference":
            _expect_value_error(lambda: f(xs, ys, x, y, reference_function_integral_method=case["name"]),
                                f"integral matching with reference rule {case['name']!r}")
        elif w == "search":
            _expect_value_error(lambda: f(xs, ys, x, y, fixed_points_finding_strategy=case["name"]),
                                f"integral matching with search strategy {case['name']!r}")
        elif w == "not_in_x":
            bad = [float(xs[0]), float(xs[1] + 0.5 * (xs[2] - xs[1])), float(xs[-1])]
            _expect_value_error(lambda: f(xs, ys, x, y, fixed_points_in_x=bad), "fixed points that are not samples of x")
            # the same on integer-dtype abscissae (sample counters): k + 0.5 is not a sample either
            xi = np.arange(len(xs), dtype=np.int64)
            xri = xi[::4]
            bad_i = [0.0, 1.5, float(xi[-1])]
            _expect_value_error(lambda: f(xi, ys, xri, y[:len(xri)], fixed_points_in_x=bad_i),
                                "fixed points that are not samples of an integer-dtype x")
            _expect_value_error(lambda: f(xi.tolist(), ys.tolist(), xri.tolist(), y[:len(xri)].tolist(),
                                          fixed_points_in_x=[0, 2.5, int(xi[-1])]),
                                "fixed points that are not samples of an integer list x")
        elif w == "too_many_x":
            _expect_value_error(lambda: f(xs, ys, x, y, fixed_points_in_x=list(xs) + [float(xs[-1] + 1)]),
                                "more fixed positions than samples")
            _expect_value_error(lambda: f(xs, ys, x, y, fixed_points_in_x=list(xs) + [float(xs[0])]),
                                "more fixed positions than samples (one repeated)")
        else:
            _expect_value_error(lambda: f(xs, ys, x, y, fixed_points_indices_in_x=list(range(len(xs))) + [0]),
                                "more fixed indices than samples")
    ctx.record(case, [k + (":" + str(case.get("what") or case.get("shape") or case.get("name") or ""))], True)


SUBCHECKS = [
    Sub("histories", "machine", body, machine=lambda ctx: pm.make_machine(ctx, with_rejects=True, max_ops=14),
        quick=800, thorough=24000, steps=(18, 18),
        clause="every invalid request raises ValueError and leaves working, reference and original series untouched"),
    Sub("stateless", "hyp", stateless_body, strategy=stateless_case, quick=600, thorough=6000,
        clause="constructor, from_2d_array, dispatchers, strategies and load_dataset reject invalid arguments"),
]
