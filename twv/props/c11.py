"""C11 - truncation and slicing select exactly the requested range."""
import math
from fractions import Fraction

import numpy as np
from hypothesis import strategies as st

from twv.runner import Sub, Violation
from twv.gens import fl, series, ys

import traffic_weaver.process as process
from traffic_weaver import Weaver

PROPERTY = "C11"
LEVEL = "exploration"
RULE = ("Hypothesis builds a series of 2..60 samples (all spacing kinds of twv.gens incl. int64 abscissae and list "
        "inputs) and, by construction, a valid request: truncate: two bounds, each absolute (a sample, the first / "
        "last abscissa, nextafter neighbours of a sample, a gap midpoint, a random point inside a gap, a value "
        "below / above the range) or a ratio (0, 1, the ratio of a sample, dyadic ratios, random in [-0.5, 1.5]), "
        "all four as-ratio flag combinations (flags passed by keyword, positionally or left at their default), "
        "ordered so that left < right after conversion; Weaver.truncate_by_value on a fresh object and on an "
        "object whose working series lives on a different grid than the reference (same span: all flags; other "
        "span: absolute bounds); a quarter of the truncate series are ratio lattices (x0 + unit * k, k in 0..2**q) and "
        "the ratio kind 'rlands' picks an interior sample whose ratio converts back onto it without any rounding "
        "(class ratio-lands-on-sample, left and right independently); slice_by_value with start / stop in "
        "{omitted, None, a sample}, start <= stop and step in {omitted, 1, 2, 3, 4, 5} (stops aligned and not "
        "aligned with the stride, with and without samples beyond the stop); "
        "slice_by_index with 0 <= start, stop <= len (or omitted / None) and steps in +-{1,2,3,7}; "
        "truncate_by_index with 0 <= start < stop <= len (or omitted / None); history: ONE Weaver (2..24 samples), "
        "1..5 rounds of 1..2 selector calls (slice_by_value / slice_by_index / truncate_by_value / truncate_by_index, "
        "requests given relative to the current series: sample numbers, gap midpoints, ulp neighbours, ratios) "
        "followed by 1..2 steps that move the grid with the same sample count (shift_x, scale_x > 0, normalize_x, "
        "interpolate(n=len), interpolate(new_x = same ends, moved interior), trend / scale_y / shift_y) or another "
        "count (repeat, append_one_sample, interpolate(n)), then 1..2 more selector calls; every call is judged by "
        "the same oracles against copies of get() (and get_reference() for truncate_by_value) taken just before "
        "it. Non-trivial = a bound strictly "
        "inside the range and off the samples, or equal to the first / last sample, or omitted (index requests: an "
        "omitted bound, a step != 1 or a proper non-empty sub-range; history: a selector judged after an earlier "
        "selector call and at least one grid-moving step); distinct = distinct full input.")
ASSUMPTIONS = [
    "x strictly increasing; truncate bounds satisfy left < right after ratio conversion (the opposite is C20's "
    "business); exact rational evaluation of ratio*span + x[0], both neighbouring cuts accepted when the exact "
    "bound lies within 4 ulp (of the largest magnitude entering the expression) of a sample",
    "the ambiguity band is dropped (exactly one cut accepted) when none of the three float operations of the "
    "documented conversion ratio * (x[-1] - x[0]) + x[0] rounds, verified in rationals: the float bound then IS the "
    "exact bound",
    "slice_by_value: start / stop are samples, None or omitted, start <= stop (the statement says nothing about "
    "inverted value ranges); steps 1..5: the samples with start <= x <= stop taken with the stride counted from "
    "the first of them (Python slice semantics x[i0:i1+1:step])",
    "slice_by_index / truncate_by_index: indices inside 0..len; negative steps only with an explicit stop (the "
    "documented meaning of stop=None, 'length of the series', and Python's x[s:None:-k] differ); truncate_by_index "
    "with start < stop; the reference after truncate_by_index is not asserted (the 'same bounds' clause is about "
    "truncation by value)",
    "history: a non-selector step that raises, or leaves a state that is not a finite strictly increasing series "
    "of >= 2 samples, ends the history silently (counted; other properties own those steps); a request that is not "
    "valid for the current state (inverted bounds, a cut that would leave < 2 samples in the working series or the "
    "reference, truncate_by_index beyond the shorter of the two series) is skipped and counted; when working and "
    "reference spans differ, ratio bounds are converted to absolute values of the working series first",
    "a Weaver whose reference differs from the working series is set up by assigning the public attributes x, y "
    "after construction (no other library call involved); ratio bounds are used there only when both series "
    "have the same first and last abscissa",
]
TECHNIQUE = ("Hypothesis-generated series and requests (bounds on / one ulp beside / between / outside samples, "
             "ratio flags, omitted bounds, signed steps) checked against brute-force definitions written from the "
             "statement, ratio bounds evaluated in exact rationals")
LEVEL_TEXT = ("Randomized exploration with an independent brute-force oracle (last sample <= left, first sample >= "
              "right, {start <= x <= stop}, Python list slicing); comparisons exact. The unbounded input space is "
              "sampled, with the boundary classes (bound on the first / last sample, omitted, one ulp beside a "
              "sample) forced to have mass.")
LEVEL_NOTE = ("trusts the ~40-line oracle in this module and Python's own list slicing as the definition of slice "
              "semantics; float-ratio bounds within 4 ulp of a sample accept both neighbouring cuts")

OMIT = "omit"
EXACT_KINDS = ("unit", "unit-int", "hours", "dyadic", "motif")   # abscissae on a dyadic lattice: x - x[k] is exact


# ---- oracle -----------------------------------------------------------------------------------------------------

def exact_bound(x, v, as_ratio):
    """Exact value of the requested bound and the half-width of the band in which its float evaluation may lie."""
    if not as_ratio:
        return Fraction(v), Fraction(0)
    x0, x1 = Fraction(x[0]), Fraction(x[-1])
    prod = Fraction(v) * (x1 - x0)
    b = prod + x0
    if ratio_evaluates_exactly(x, v):
        return b, Fraction(0)
    mag = max(abs(x0), abs(x1), abs(prod), abs(b))
    return b, 4 * Fraction(math.ulp(float(mag)))


def ratio_evaluates_exactly(x, v):
    """True when none of the three float operations of ratio * (x[-1] - x[0]) + x[0] rounds (checked in rationals):
    then the float bound IS the exact bound (e.g. 0.25 of a span of 16 on an integer grid) and there is no rounding
    to make allowance for - a bound that lands on a sample selects that sample and nothing else."""
    x0, x1 = Fraction(x[0]), Fraction(x[-1])
    span_f = float(x1 - x0)
    if Fraction(span_f) != x1 - x0:
        return False
    prod_f = float(v) * span_f
    if Fraction(prod_f) != Fraction(v) * (x1 - x0):
        return False
    return Fraction(prod_f + float(x[0])) == Fraction(v) * (x1 - x0) + x0


def landing_ratios(x):
    """{i: r} for the interior samples x[i] that the float ratio r = (x[i]-x[0])/(x[-1]-x[0]) hits exactly, without any
    rounding in r * (x[-1] - x[0]) + x[0]"""
    out = {}
    for i in range(1, len(x) - 1):
        r = (x[i] - x[0]) / (x[-1] - x[0])
        if ratio_evaluates_exactly(x, r) and Fraction(r) * (Fraction(x[-1]) - Fraction(x[0])) + Fraction(x[0]) == Fraction(x[i]):
            out[i] = r
    return out


def last_le(fx, q):
    """index of the last sample <= q, else the first sample"""
    best = 0
    for i, v in enumerate(fx):
        if v <= q:
            best = i
    return best


def first_ge(fx, q):
    """index of the first sample >= q, else the last sample"""
    for i, v in enumerate(fx):
        if v >= q:
            return i
    return len(fx) - 1


def allowed_cut(x, left, right, left_ratio, right_ratio):
    """(admissible first indices, admissible last indices, ambiguous?) of the kept run."""
    fx = [Fraction(v) for v in x]
    lo, tl = exact_bound(x, left, left_ratio)
    hi, tr = exact_bound(x, right, right_ratio)
    a = range(last_le(fx, lo - tl), last_le(fx, lo + tl) + 1)
    b = range(first_ge(fx, hi - tr), first_ge(fx, hi + tr) + 1)
    return a, b, len(a) > 1 or len(b) > 1


def ordered(x, left, right, left_ratio, right_ratio):
    """left < right holds for the exact bounds and for any float evaluation of them"""
    lo, tl = exact_bound(x, left, left_ratio)
    hi, tr = exact_bound(x, right, right_ratio)
    return hi - lo > tl + tr


def as_list(name, a):
    if isinstance(a, np.ndarray):
        if a.ndim != 1:
            raise Violation(f"{name}: result has shape {a.shape}")
        return a.tolist()
    if isinstance(a, (list, tuple)):
        return [v.item() if isinstance(v, np.generic) else v for v in a]
    raise Violation(f"{name}: result is {type(a).__name__}, not a 1-D array")


def pair(name, res):
    if not (isinstance(res, tuple) and len(res) == 2):
        raise Violation(f"{name}: returned {type(res).__name__}, not an (x, y) pair")
    return as_list(name + " x", res[0]), as_list(name + " y", res[1])


def check_cut(name, x, y, got, a_ok, b_ok):
    tx, ty = got
    if len(tx) != len(ty):
        raise Violation(f"{name}: x has {len(tx)} samples, y has {len(ty)}")
    if not tx:
        raise Violation(f"{name}: nothing kept, expected samples {a_ok[0]}..{b_ok[0]}")
    if tx[0] not in x:
        raise Violation(f"{name}: first kept abscissa {tx[0]!r} is not a sample of the input")
    a = x.index(tx[0])
    b = a + len(tx) - 1
    if tx != x[a:b + 1]:
        raise Violation(f"{name}: kept abscissae are not the contiguous run of samples {a}..{b}",
                        detail=dict(got_x=tx))
    if ty != y[a:b + 1]:
        raise Violation(f"{name}: x was cut to samples {a}..{b} but y was cut differently",
                        detail=dict(got_y=ty, want_y=y[a:b + 1]))
    if a not in a_ok or b not in b_ok:
        raise Violation(f"{name}: kept samples {a}..{b}, expected {a_ok[0]}..{b_ok[0]}"
                        + (f" (or up to {a_ok[-1]}..{b_ok[-1]})" if len(a_ok) > 1 or len(b_ok) > 1 else ""),
                        detail=dict(got_x=tx))
    return a, b


def check_exact(name, got, want_x, want_y):
    gx, gy = got
    if gx != want_x:
        raise Violation(f"{name}: x is {_short(gx)}, expected {_short(want_x)}")
    if gy != want_y:
        raise Violation(f"{name}: y is {_short(gy)}, expected {_short(want_y)} (x is right)")


def _short(v):
    return v if len(v) <= 12 else f"[{len(v)} values: {v[:4]} .. {v[-3:]}]"


def where(x, b):
    """position class of an exact bound relative to the samples"""
    fx0, fx1 = Fraction(x[0]), Fraction(x[-1])
    if b < fx0:
        return "below"
    if b > fx1:
        return "above"
    if b == fx0:
        return "first"
    if b == fx1:
        return "last"
    return "sample" if any(Fraction(v) == b for v in x) else "offgrid"


def arr(case, key_x, key_y):
    x, y = case[key_x], case[key_y]
    if case.get("as_list"):
        return list(x), list(y)
    return np.array(x), np.array(y)


# ---- generators ---------------------------------------------------------------------------------------------------

def draw_bound(draw, x, as_ratio):
    n = len(x)
    i = draw(st.integers(0, n - 1))
    x0, x1 = x[0], x[-1]
    if as_ratio:
        kind = draw(st.sampled_from(["r0", "r1", "rsample", "rdyadic", "rin", "rin", "rneg", "rbig", "rlands", "rlands",
                                     "rlands"]))
        lands = landing_ratios(x) if kind == "rlands" else {}
        if kind == "rlands" and lands:
            # ratio-lands-on-sample: the ratio of an interior sample that converts back onto it without rounding
            keys = sorted(lands)
            v = lands[draw(st.sampled_from([keys[0], keys[-1], keys[len(keys) // 2]] + keys))]
        elif kind == "rlands":
            kind, v = "rdyadic", draw(st.sampled_from([0.5, 0.25, 0.75, 0.125, 0.875]))
        elif kind == "r0":
            v = draw(st.sampled_from([0.0, 0]))
        elif kind == "r1":
            v = draw(st.sampled_from([1.0, 1]))
        elif kind == "rsample":
            v = (x[i] - x0) / (x1 - x0)
        elif kind == "rdyadic":
            v = draw(st.sampled_from([0.5, 0.25, 0.75, 0.125, 0.875, -0.5, -0.25, 1.25, 1.5]))
        elif kind == "rin":
            v = draw(fl(0.0, 1.0))
        elif kind == "rneg":
            v = draw(fl(-0.5, 0.0))
        else:
            v = draw(fl(1.0, 1.5))
        return kind, v
    kind = draw(st.sampled_from(["sample", "first", "last", "ulp+", "ulp-", "mid", "between", "between", "below",
                                 "above"]))
    if kind in ("mid", "between") and i == n - 1:
        i -= 1
    if kind == "sample":
        v = x[i]
    elif kind == "first":
        v = x0
    elif kind == "last":
        v = x1
    elif kind == "ulp+":
        v = math.nextafter(float(x[i]), math.inf)
    elif kind == "ulp-":
        v = math.nextafter(float(x[i]), -math.inf)
    elif kind == "mid":
        v = x[i] + (x[i + 1] - x[i]) / 2
    elif kind == "between":
        v = x[i] + draw(fl(0.0, 1.0)) * (x[i + 1] - x[i])
    elif kind == "below":
        v = x0 - draw(st.one_of(st.sampled_from([0.5, 1.0, 100.0]), fl(0.0, 10.0)))
    else:
        v = x1 + draw(st.one_of(st.sampled_from([0.5, 1.0, 100.0]), fl(0.0, 10.0)))
    return kind, v


@st.composite
def ratio_lattice_series(draw, ctx):
    """x[0] + unit * k, k a subset of 0..2**q containing both ends: every sample's ratio k / 2**q is a dyadic float and
    converts back onto the sample without rounding (integer grids with a power-of-two span and their scaled copies)."""
    q = draw(st.integers(2, 5))
    big = 2 ** q
    inner = draw(st.lists(st.integers(1, big - 1), unique=True, min_size=1, max_size=min(big - 1, ctx.pick(38, 58))))
    ks = [0] + sorted(inner) + [big]
    unit = draw(st.sampled_from([1, 1, 1, 2, 4, 3, 5, 60, 1024, 0.5, 0.25, 0.375]))
    x0 = draw(st.one_of(st.integers(-64, 64), st.integers(-64, 64).map(lambda k: k / 8)))
    x = [x0 + unit * k for k in ks]
    as_int = all(float(v).is_integer() for v in x) and draw(st.booleans())
    x = [int(v) for v in x] if as_int else [float(v) for v in x]
    return dict(x=x, y=draw(ys(len(x)))["y"], xkind="ratio-lattice-int" if as_int else "ratio-lattice", ykind="?",
                xint=as_int, as_list=draw(st.integers(0, 4)) == 0)


def truncate_series(draw, ctx):
    if draw(st.integers(0, 3)) == 0:
        return draw(ratio_lattice_series(ctx))
    return draw(series(2, ctx.pick(40, 60)))


def draw_request(draw, x, allow_ratio=True):
    """A valid truncation request for abscissae x: dict(left, right, lr, rr, lkind, rkind, style)."""
    lr = allow_ratio and draw(st.booleans())
    rr = allow_ratio and draw(st.booleans())
    scen = draw(st.sampled_from(["general"] * 12 + ["below-first", "last-above", "both-below", "both-above"]))
    if scen == "general":
        lk, lv = draw_bound(draw, x, lr)
        rk, rv = draw_bound(draw, x, rr)
    else:
        # corner scenarios that two independent draws rarely produce; offsets in units of the span
        ol, orr = dict([("below-first", (-0.3, 0.0)), ("last-above", (1.0, 1.3)), ("both-below", (-0.4, -0.1)),
                        ("both-above", (1.1, 1.4))])[scen]
        x0, u = x[0], x[-1] - x[0]
        lk = rk = scen
        lv = ol if lr else (x[0] if ol == 0.0 else x[-1] if ol == 1.0 else x0 + ol * u)
        rv = orr if rr else (x[0] if orr == 0.0 else x[-1] if orr == 1.0 else x0 + orr * u)
    if not ordered(x, lv, rv, lr, rr):
        lk, lv, lr, rk, rv, rr = rk, rv, rr, lk, lv, lr
    if not ordered(x, lv, rv, lr, rr):
        # (nearly) coinciding bounds: rebuild the right one relative to the left one
        lo, tl = exact_bound(x, lv, lr)
        above = [k for k in range(len(x)) if Fraction(x[k]) > lo + 3 * tl]
        how = draw(st.sampled_from(["sample-above", "sample-above", "ulp-above", "far-above"]))
        if how == "ulp-above" and not lr:
            rk, rr, rv = "ulp-above-left", False, math.nextafter(float(lv), math.inf)
        elif how != "far-above" and above:
            k = draw(st.sampled_from([above[0], above[-1], above[len(above) // 2]]))
            rk, rv = "sample-above-left", ((x[k] - x[0]) / (x[-1] - x[0]) if rr else x[k])
        if not ordered(x, lv, rv, lr, rr):
            rk, rr = "far-above-left", False
            rv = float(max(lo + tl, Fraction(x[-1]))) + 1.0
    styles = ["kw", "pos"] + (["default"] if not (lr or rr) else [])
    return dict(left=lv, right=rv, lr=lr, rr=rr, lkind=lk, rkind=rk, style=draw(st.sampled_from(styles)))


def call_truncate(fn, req, *lead):
    if req["style"] == "default":
        return fn(*lead, req["left"], req["right"])
    if req["style"] == "pos":
        return fn(*lead, req["left"], req["right"], req["lr"], req["rr"])
    return fn(*lead, x_left=req["left"], x_right=req["right"], x_left_as_ratio=req["lr"],
              x_right_as_ratio=req["rr"])


def request_classes(x, req, prefix=""):
    lo, tl = exact_bound(x, req["left"], req["lr"])
    hi, tr = exact_bound(x, req["right"], req["rr"])
    wl, wr = where(x, lo), where(x, hi)
    cls = {f"{prefix}left:{wl}", f"{prefix}right:{wr}", f"flags:{'R' if req['lr'] else 'A'}{'R' if req['rr'] else 'A'}",
           f"lkind:{req['lkind']}", f"rkind:{req['rkind']}", f"style:{req['style']}"}
    nt = wl in ("offgrid", "first", "last") or wr in ("offgrid", "first", "last")
    for side, flag, w_, t in (("left", req["lr"], wl, tl), ("right", req["rr"], wr, tr)):
        if flag and t == 0:
            cls.add(f"{prefix}{side}:ratio-evaluates-exactly")
            if w_ == "sample":
                cls.add(f"{prefix}{side}:ratio-lands-on-sample")
                cls.add("ratio-lands-on-sample")
                nt = True
    return cls, nt


def series_classes(case, x):
    cls = {"x:" + case.get("xkind", "?")}
    if case.get("xint"):
        cls.add("int-x")
    if case.get("as_list"):
        cls.add("list-input")
    if len(x) == 2:
        cls.add("two-samples")
    return cls


def result_classes(n, a, b):
    if a == 0 and b == n - 1:
        return {"keeps:whole"}
    if a == b:
        return {"keeps:one-sample"}
    return {"keeps:proper-part"}


# ---- process.truncate -----------------------------------------------------------------------------------------------

@st.composite
def truncate_case(draw, ctx):
    s = truncate_series(draw, ctx)
    return dict(s, req=draw_request(draw, s["x"]))


def truncate_body(ctx, case):
    x, y, req = case["x"], case["y"], case["req"]
    if not ordered(x, req["left"], req["right"], req["lr"], req["rr"]):
        ctx.count("precondition-skip")
        return
    a_ok, b_ok, amb = allowed_cut(x, req["left"], req["right"], req["lr"], req["rr"])
    xa, ya = arr(case, "x", "y")
    a, b = check_cut("truncate", x, y, pair("truncate", call_truncate(process.truncate, req, xa, ya)), a_ok, b_ok)
    # second call with y_i = i: the cut of y is identified by position, not by (possibly tied) values
    tags = list(range(len(x)))
    ta = list(tags) if case.get("as_list") else np.array(tags)
    check_cut("truncate (y = sample number)", x, tags,
              pair("truncate", call_truncate(process.truncate, req, xa, ta)), a_ok, b_ok)
    cls, nt = request_classes(x, req)
    cls |= series_classes(case, x) | result_classes(len(x), a, b)
    if amb:
        cls.add("ambiguous-accepted")
        ctx.count("ambiguous")
    ctx.record(case, cls, nt)


# ---- Weaver.truncate_by_value -----------------------------------------------------------------------------------------

@st.composite
def weaver_truncate_case(draw, ctx):
    s = truncate_series(draw, ctx)
    x, y = s["x"], s["y"]
    case = dict(xr=x, yr=y, xw=None, yw=None, xkind=s["xkind"], xint=s["xint"], as_list=s["as_list"], grid="fresh")
    allow_ratio = True
    if len(x) >= 3 and draw(st.integers(0, 2)) != 0:
        same_span = draw(st.booleans())
        keep = draw(st.lists(st.booleans(), min_size=len(x), max_size=len(x)))
        if same_span:
            keep[0] = keep[-1] = True
        else:
            keep[draw(st.sampled_from([0, -1]))] = False
        idx = [i for i, k in enumerate(keep) if k]
        if len(idx) < 2:
            idx = [1, len(x) - 1] if not same_span else [0, len(x) - 1]
        xw = [x[i] for i in idx]
        if xw[0] == x[0] and xw[-1] == x[-1]:
            case["grid"] = "regrid-same-span"
        else:
            case["grid"] = "regrid-other-span"
            allow_ratio = False
        case["xw"] = xw
        case["yw"] = draw(ys(len(xw)))["y"]
    base = x if case["xw"] is None or draw(st.booleans()) else case["xw"]
    case["req"] = draw_request(draw, base, allow_ratio)
    return case


def weaver_truncate_body(ctx, case):
    xr, yr, req = case["xr"], case["yr"], case["req"]
    xw, yw = (xr, yr) if case["xw"] is None else (case["xw"], case["yw"])
    same_span = xw[0] == xr[0] and xw[-1] == xr[-1]
    if (not all(ordered(v, req["left"], req["right"], req["lr"], req["rr"]) for v in (xw, xr))
            or ((req["lr"] or req["rr"]) and not same_span)):
        ctx.count("precondition-skip")
        return
    w = Weaver(*arr(case, "xr", "yr"))
    if case["xw"] is not None:
        w.x, w.y = np.array(xw), np.array(yw)
    call_truncate(w.truncate_by_value, req)
    wa, wb, amb_w = allowed_cut(xw, req["left"], req["right"], req["lr"], req["rr"])
    ra, rb, amb_r = allowed_cut(xr, req["left"], req["right"], req["lr"], req["rr"])
    a, b = check_cut("working series after truncate_by_value", xw, yw, pair("get()", w.get()), wa, wb)
    a2, b2 = check_cut("reference series after truncate_by_value", xr, yr,
                       pair("get_reference()", w.get_reference()), ra, rb)
    cls, nt = request_classes(xw, req)
    cls |= series_classes(case, xr) | result_classes(len(xw), a, b)
    cls.add("grid:" + case["grid"])
    if case["xw"] is not None:
        cls.add("reference-" + sorted(result_classes(len(xr), a2, b2))[0])
        if (b2 - a2 + 1, xr[a2], xr[b2]) != (b - a + 1, xw[a], xw[b]):
            cls.add("reference-cut-differs-from-working-cut")
    if amb_w or amb_r:
        cls.add("ambiguous-accepted")
        ctx.count("ambiguous")
    ctx.record(case, cls, nt)


# ---- Weaver.slice_by_value ----------------------------------------------------------------------------------------------

@st.composite
def slice_value_case(draw, ctx):
    s = draw(series(2, ctx.pick(40, 60)))
    n = len(s["x"])
    i = draw(st.one_of(st.sampled_from([0, n - 1]), st.integers(0, n - 1)))
    j = draw(st.one_of(st.sampled_from([0, n - 1, i]), st.integers(0, n - 1)))
    i, j = min(i, j), max(i, j)
    if s["xkind"] in EXACT_KINDS and draw(st.integers(0, 2)) == 0:
        # a sample equal to 0 that is not the first one, requested as start or stop (exact shift on these lattices)
        k = draw(st.sampled_from([i, j]))
        s = dict(s, x=[v - s["x"][k] for v in s["x"]])
    kinds = ["sample", "sample", "sample", OMIT, "none"]
    sk, ek = draw(st.sampled_from(kinds)), draw(st.sampled_from(kinds))
    style = draw(st.sampled_from(["kw", "pos"])) if OMIT not in (sk, ek) else "kw"
    return dict(s, start_kind=sk, start_i=i, stop_kind=ek, stop_i=j, style=style,
                step=draw(st.sampled_from([OMIT, 1, 2, 2, 3, 3, 4, 5])), as_float=draw(st.booleans()))


def slice_value_body(ctx, case):
    x, y = case["x"], case["y"]
    n = len(x)
    w = Weaver(*arr(case, "x", "y"))
    conv = float if case["as_float"] else (lambda v: v)
    kw, cls = {}, set()
    lo, hi = -math.inf, math.inf
    for side, kind, i in (("start", case["start_kind"], case["start_i"]), ("stop", case["stop_kind"], case["stop_i"])):
        if kind == "sample":
            kw[side] = conv(x[i])
            if side == "start":
                lo = x[i]
            else:
                hi = x[i]
            cls.add(f"{side}:" + ("first" if i == 0 else "last" if i == n - 1 else "inner"))
            if x[i] == 0 and i > 0:
                cls.add(f"{side}:zero-valued-sample")
        else:
            if kind == "none":
                kw[side] = None
            cls.add(f"{side}:{kind}")
    step = 1
    if case["step"] != OMIT:
        step = kw["step"] = case["step"]
    cls.add(f"step:{case['step']}")
    text = f"slice_by_value({', '.join(f'{k}={v!r}' for k, v in sorted(kw.items()))}) on {n} samples"
    if case["style"] == "pos":
        pos = [kw.pop("start"), kw.pop("stop")] + ([kw.pop("step")] if "step" in kw and case["start_i"] % 2 else [])
        got = w.slice_by_value(*pos, **kw)
    else:
        got = w.slice_by_value(**kw)
    # the samples with start <= x <= stop, taken with the stride counted from the first of them
    inside = [k for k, u in enumerate(x) if lo <= u <= hi]
    want = [(x[k], y[k]) for k in inside[::step]]
    check_exact(text, pair("slice_by_value", got), [u for u, _ in want], [v for _, v in want])
    if step > 1 and inside:
        aligned = (inside[-1] - inside[0]) % step == 0
        cls.add("stride:" + ("stop-aligned" if aligned else "stop-not-aligned")
                + ("" if inside[-1] == n - 1 else ",samples-beyond-stop"))
    nt = any(c in cls for c in ("start:first", "start:last", "start:omit", "start:none", "stop:first", "stop:last",
                                "stop:omit", "stop:none"))
    cls |= series_classes(case, x)
    cls.add("keeps:whole" if len(want) == n else "keeps:one-sample" if len(want) == 1 else "keeps:proper-part")
    cls.add("style:" + case["style"])
    ctx.record(case, cls, nt or step > 1)


# ---- Weaver.slice_by_index ------------------------------------------------------------------------------------------------

@st.composite
def slice_index_case(draw, ctx):
    s = draw(series(2, ctx.pick(40, 60)))
    n = len(s["x"])
    step = draw(st.sampled_from([OMIT, 1, 2, 3, 7, -1, -2, -3, -7]))
    idx = st.one_of(st.sampled_from([0, 1, n - 1, n]), st.integers(0, n))
    start = draw(st.one_of(st.just(OMIT), idx, idx))
    stop = draw(idx) if step != OMIT and step < 0 else draw(st.one_of(st.sampled_from([OMIT, None]), idx, idx, idx))
    return dict(s, start=start, stop=stop, step=step)


def slice_index_body(ctx, case):
    x, y = case["x"], case["y"]
    n = len(x)
    kw = {k: case[k] for k in ("start", "stop", "step") if case[k] != OMIT}
    step = kw.get("step", 1)
    if step < 0 and kw.get("stop") is None:
        ctx.count("precondition-skip")
        return
    w = Weaver(*arr(case, "x", "y"))
    got = pair("slice_by_index", w.slice_by_index(**kw))
    s = slice(kw.get("start", 0), n if kw.get("stop") is None else kw["stop"], step)
    want_x, want_y = x[s], y[s]
    check_exact(f"slice_by_index({', '.join(f'{k}={v!r}' for k, v in sorted(kw.items()))}) on {n} samples", got,
                want_x, want_y)
    cls = series_classes(case, x)
    for k in ("start", "stop", "step"):
        v = case[k]
        if k == "step":
            cls.add(f"step:{v}")
        else:
            cls.add(f"{k}:" + (str(v) if v in (OMIT, None) else "0" if v == 0 else "len" if v == n else "inner"))
    cls.add("result:" + ("empty" if not want_x else "whole" if len(want_x) == n else "reversed" if step < 0
                         else "strided" if step > 1 else "contiguous-part"))
    nt = OMIT in (case["start"], case["stop"]) or case["stop"] is None or step != 1 or 0 < len(want_x) < n
    ctx.record(case, cls, nt)


# ---- Weaver.truncate_by_index -----------------------------------------------------------------------------------------------

@st.composite
def truncate_index_case(draw, ctx):
    s = draw(series(2, ctx.pick(40, 60)))
    n = len(s["x"])
    i = draw(st.one_of(st.sampled_from([0, 1, n - 1]), st.integers(0, n - 1)))
    j = draw(st.one_of(st.sampled_from([n, n - 1, i + 1]), st.integers(1, n)))
    if j <= i:
        i, j = j - 1, i + 1
    start = draw(st.sampled_from([OMIT, i, i, i]))
    stop = draw(st.sampled_from([OMIT, None, j, j, j, j]))
    style = draw(st.sampled_from(["kw", "pos"])) if start != OMIT else "kw"
    return dict(s, start=start, stop=stop, style=style)


def truncate_index_body(ctx, case):
    x, y = case["x"], case["y"]
    n = len(x)
    kw = {k: case[k] for k in ("start", "stop") if case[k] != OMIT}
    s = slice(kw.get("start", 0), kw.get("stop"))
    want_x, want_y = x[s], y[s]
    if not want_x or kw.get("start", 0) < 0 or (kw.get("stop") is not None and not 0 <= kw["stop"] <= n):
        ctx.count("precondition-skip")
        return
    w = Weaver(*arr(case, "x", "y"))
    text = f"truncate_by_index({', '.join(f'{k}={v!r}' for k, v in sorted(kw.items()))}) on {n} samples"
    if case["style"] == "pos":
        w.truncate_by_index(*[kw[k] for k in ("start", "stop") if k in kw])
    else:
        w.truncate_by_index(**kw)
    check_exact(text, pair("get()", w.get()), want_x, want_y)
    cls = series_classes(case, x)
    for k in ("start", "stop"):
        v = case[k]
        cls.add(f"{k}:" + (str(v) if v in (OMIT, None) else "0" if v == 0 else "len" if v == n else "inner"))
    cls.add("keeps:whole" if len(want_x) == n else "keeps:one-sample" if len(want_x) == 1 else "keeps:proper-part")
    cls.add("style:" + case["style"])
    nt = OMIT in (case["start"], case["stop"]) or case["stop"] is None or len(want_x) < n
    ctx.record(case, cls, nt)

# ---- history: every selector call is judged against the series as it is at that moment ------------------------------------

SELECTORS = ["slice_value", "slice_value", "slice_value", "slice_index", "slice_index", "truncate_value",
             "truncate_index"]
SAME_COUNT = ["shift_x", "scale_x", "normalize_x", "interpolate_same_n", "interpolate_new_x", "interpolate_new_x",
              "trend", "scale_y", "shift_y"]
OTHER_COUNT = ["repeat", "append", "interpolate_n"]


@st.composite
def hist_selector(draw, favourite=None):
    op = favourite if favourite and draw(st.booleans()) else draw(st.sampled_from(SELECTORS))
    k = st.integers(0, 10 ** 4)
    d = dict(op=op)
    if op == "slice_value":
        ends = st.one_of(st.sampled_from([OMIT, "none", 0, -1]), k, k)
        d.update(start=draw(ends), stop=draw(ends), step=draw(st.sampled_from([OMIT, OMIT, 1, 2, 3, 4, 5])))
    elif op == "slice_index":
        step = draw(st.sampled_from([OMIT, 1, 2, 3, 7, -1, -2, -3, -7]))
        d.update(start=draw(st.one_of(st.just(OMIT), k, k)), step=step,
                 stop=draw(k) if step != OMIT and step < 0 else draw(st.one_of(st.sampled_from([OMIT, None]), k, k)))
    elif op == "truncate_value":
        def bound():
            kind = draw(st.sampled_from(["sample", "sample", "mid", "ulp+", "ulp-", "below", "above", "ratio", "ratio",
                                         "ratio", "ratio"]))
            if kind == "ratio":
                return [kind, draw(st.one_of(st.sampled_from([0.0, 1.0, 0.5, 0.25, 0.75]), fl(-0.5, 1.5)))]
            if kind in ("below", "above"):
                return [kind, draw(fl(0.0, 2.0))]
            return [kind, draw(k)]
        d.update(left=bound(), right=bound(), style=draw(st.sampled_from(["kw", "pos"])))
    else:
        d.update(i=draw(k), j=draw(k), stop_none=draw(st.integers(0, 4)) == 0)
    return d


@st.composite
def hist_mutator(draw, kinds):
    op = draw(st.sampled_from(kinds))
    d = dict(op=op)
    if op in ("shift_x", "shift_y"):
        d.update(v=draw(st.one_of(st.sampled_from([1.0, -2.5, 100.0, 0.125]), fl(-100.0, 100.0))))
    elif op in ("scale_x", "scale_y"):
        d.update(v=draw(st.one_of(st.sampled_from([2.0, 0.5, 0.25, 4.0, 3.0]), fl(0.1, 10.0))))
    elif op == "normalize_x":
        lo = draw(st.one_of(st.sampled_from([0.0, -1.0, 5.0]), fl(-10.0, 10.0)))
        d.update(lo=lo, hi=lo + draw(st.one_of(st.sampled_from([1.0, 24.0, 100.0]), fl(0.5, 100.0))))
    elif op == "interpolate_new_x":
        d.update(t=draw(st.lists(fl(0.0, 0.9), min_size=1, max_size=8)))
    elif op == "interpolate_n":
        d.update(n=draw(st.integers(2, 40)))
    elif op == "trend":
        d.update(a=draw(st.one_of(st.sampled_from([1.0, -0.5]), fl(-3.0, 3.0))))
    elif op == "repeat":
        d.update(r=draw(st.sampled_from([2, 2, 3])))
    elif op == "append":
        d.update(periodic=draw(st.booleans()))
    return d


@st.composite
def history_case(draw, ctx):
    s = draw(series(2, 24))
    prog = []
    # state leaks show when the SAME selector is called again after the grid moved: one selector is favoured per history
    fav = draw(st.sampled_from(SELECTORS + ["truncate_value", None]))
    for _ in range(draw(st.integers(1, ctx.pick(3, 5)))):
        prog += draw(st.lists(hist_selector(fav), min_size=1, max_size=2))
        prog += draw(st.lists(hist_mutator(SAME_COUNT + SAME_COUNT + OTHER_COUNT), min_size=1, max_size=2))
    prog += draw(st.lists(hist_selector(fav), min_size=1, max_size=2))
    return dict(s, prog=prog)


def _state(res):
    """(x list, y list) if `res` is a finite, strictly increasing series of >= 2 samples, else None"""
    if not (isinstance(res, tuple) and len(res) == 2):
        return None
    out = []
    for a in res:
        if not isinstance(a, np.ndarray) or a.ndim != 1 or a.dtype.kind not in "iuf":
            return None
        out.append(a.tolist())
    x, y = out
    if len(x) < 2 or len(x) != len(y) or not all(math.isfinite(v) for v in x + y):
        return None
    if not all(b > a for a, b in zip(x[:-1], x[1:])):
        return None
    return x, y


def _mutate(w, op):
    name = op["op"]
    x = w.x
    if name == "shift_x":
        w.shift_x(op["v"])
    elif name == "scale_x":
        w.scale_x(op["v"])
    elif name == "normalize_x":
        w.normalize_x(op["lo"], op["hi"])
    elif name == "interpolate_same_n":
        w.interpolate(n=len(x))
    elif name == "interpolate_new_x":
        if len(x) < 3:
            return False
        new_x = np.array(x, dtype=float)
        for k, t in enumerate(op["t"]):
            i = 1 + (k * 3) % (len(x) - 2)
            new_x[i] = float(x[i]) + t * (float(x[i + 1]) - float(x[i]))
        w.interpolate(new_x=new_x)
    elif name == "interpolate_n":
        w.interpolate(n=op["n"])
    elif name == "trend":
        a = op["a"]
        w.trend(lambda t: a * t)
    elif name == "scale_y":
        w.scale_y(op["v"])
    elif name == "shift_y":
        w.shift_y(op["v"])
    elif name == "repeat":
        if len(x) * op["r"] > 400:
            return False
        w.repeat(op["r"])
    elif name == "append":
        w.append_one_sample(make_periodic=op["periodic"])
    return True


def _resolve_bound(x, spec):
    """(value, as_ratio) of a history bound on the current abscissae"""
    kind, v = spec
    n = len(x)
    if kind == "ratio":
        return v, True
    if kind == "below":
        return x[0] - v * (x[-1] - x[0]), False
    if kind == "above":
        return x[-1] + v * (x[-1] - x[0]), False
    i = v % n
    if kind == "sample":
        return x[i], False
    if kind == "mid":
        i = min(i, n - 2)
        return x[i] + (x[i + 1] - x[i]) / 2, False
    return math.nextafter(float(x[i]), math.inf if kind == "ulp+" else -math.inf), False


def _select(ctx, w, op, cur, ref, cls):
    """run one selector against the current state; returns 'judged', 'skipped' (request not valid here)"""
    x, y = cur
    n = len(x)
    name = op["op"]
    if name == "slice_value":
        kw, idx = {}, {}
        for side in ("start", "stop"):
            v = op[side]
            if v == "none":
                kw[side] = None
            elif v != OMIT:
                idx[side] = v % n
        if len(idx) == 2 and idx["start"] > idx["stop"]:
            idx["start"], idx["stop"] = idx["stop"], idx["start"]
        kw.update({k: x[i] for k, i in idx.items()})
        lo, hi = x[idx["start"]] if "start" in idx else -math.inf, x[idx["stop"]] if "stop" in idx else math.inf
        step = op.get("step", OMIT)
        if step != OMIT:
            kw["step"] = step
        want = [(u, v) for u, v in zip(x, y) if lo <= u <= hi][::1 if step == OMIT else step]
        text = f"slice_by_value({', '.join(f'{k}={v!r}' for k, v in sorted(kw.items()))})"
        check_exact(text, pair("slice_by_value", w.slice_by_value(**kw)), [u for u, _ in want], [v for _, v in want])
    elif name == "slice_index":
        kw = {}
        for k in ("start", "stop"):
            if op[k] != OMIT:
                kw[k] = op[k] if op[k] is None else op[k] % (n + 1)
        if op["step"] != OMIT:
            kw["step"] = op["step"]
        step = kw.get("step", 1)
        if step < 0 and kw.get("stop") is None:
            return "skipped"
        sl = slice(kw.get("start", 0), n if kw.get("stop") is None else kw["stop"], step)
        text = f"slice_by_index({', '.join(f'{k}={v!r}' for k, v in sorted(kw.items()))}) on {n} samples"
        check_exact(text, pair("slice_by_index", w.slice_by_index(**kw)), x[sl], y[sl])
    elif name == "truncate_value":
        if ref is None:
            return "skipped"
        (lv, lr), (rv, rr) = _resolve_bound(x, op["left"]), _resolve_bound(x, op["right"])
        same_span = x[0] == ref[0][0] and x[-1] == ref[0][-1]
        if not same_span:      # ratios mean different values for the two series: use the working series' value
            lv, lr = (lv * (x[-1] - x[0]) + x[0], False) if lr else (lv, lr)
            rv, rr = (rv * (x[-1] - x[0]) + x[0], False) if rr else (rv, rr)
        if not all(ordered(s[0], lv, rv, lr, rr) for s in (cur, ref)):
            lv, lr, rv, rr = rv, rr, lv, lr
        if not all(ordered(s[0], lv, rv, lr, rr) for s in (cur, ref)):
            return "skipped"
        cuts = [allowed_cut(s[0], lv, rv, lr, rr) for s in (cur, ref)]
        if any(b[0] - a[-1] + 1 < 2 for a, b, _ in cuts):
            return "skipped"    # would leave a series of < 2 samples: later steps of the history need a span
        req = dict(left=lv, right=rv, lr=lr, rr=rr, style=op["style"])
        call_truncate(w.truncate_by_value, req)
        check_cut("working series after truncate_by_value", x, y, pair("get()", w.get()), cuts[0][0], cuts[0][1])
        check_cut("reference after truncate_by_value", ref[0], ref[1], pair("get_reference()", w.get_reference()),
                  cuts[1][0], cuts[1][1])
        cls.add("truncate_value:" + ("ratio" if lr or rr else "absolute"))
        if cuts[0][2] or cuts[1][2]:
            ctx.count("ambiguous")
    else:
        m = min(n, len(w.reference_x))
        if m < 3:
            return "skipped"
        i = op["i"] % (m - 1)
        j = i + 2 + op["j"] % (m - i - 1)
        if op["stop_none"] and m == n:
            w.truncate_by_index(i)
            j = n
        else:
            w.truncate_by_index(i, j)
        check_exact(f"truncate_by_index({i}, {j}) on {n} samples", pair("get()", w.get()), x[i:j], y[i:j])
    return "judged"


def history_body(ctx, case):
    w = Weaver(*arr(case, "x", "y"))
    cls = series_classes(case, case["x"])
    since, seen, judged_after_change = [], set(), 0
    for op in case["prog"]:
        name = op["op"]
        if name not in SELECTORS:
            try:
                with np.errstate(all="ignore"):
                    if _mutate(w, op):
                        since.append(name)
            except Exception as e:      # not this property's business: the history ends here
                ctx.count(f"setup-step-failed:{name}:{type(e).__name__}")
                break
            continue
        cur, ref = _state(w.get()), _state(w.get_reference())
        if cur is None:
            ctx.count("history-ended:state-not-a-valid-series")
            break
        try:
            verdict = _select(ctx, w, op, cur, ref, cls)
        except Violation as v:
            v.msg = f"after {since or 'no'} step(s) since the last selector call: {v.msg}"
            raise
        if verdict == "skipped":
            ctx.count("request-not-valid-here:" + name)
            continue
        cls.add("sel:" + name)
        if seen and since:
            judged_after_change += 1
            cls |= {"after:" + m for m in since}
            cls.add(f"{name}-after-grid-change")
        if name in seen and since:
            cls.add(f"{name}-again-after-grid-change")
        seen.add(name)
        since = [] if name.startswith("slice") else [name]
    cls.add("selectors-judged-after-a-change:" + str(min(judged_after_change, 3)))
    ctx.record(case, cls, judged_after_change > 0)


SUBCHECKS = [
    Sub("truncate", "hyp", truncate_body, strategy=truncate_case, quick=600, thorough=10000,
        clause="process.truncate keeps the run from the last sample <= left to the first sample >= right, absolute "
               "and ratio bounds, x and y cut identically"),
    Sub("weaver_truncate", "hyp", weaver_truncate_body, strategy=weaver_truncate_case, quick=600, thorough=10000,
        clause="Weaver.truncate_by_value: working series and reference both cut with the same bounds"),
    Sub("slice_value", "hyp", slice_value_body, strategy=slice_value_case, quick=600, thorough=10000,
        clause="slice_by_value returns precisely the samples with start <= x <= stop; omitted bound = end of series"),
    Sub("slice_index", "hyp", slice_index_body, strategy=slice_index_case, quick=600, thorough=10000,
        clause="slice_by_index agrees with Python slice semantics (signed steps)"),
    Sub("truncate_index", "hyp", truncate_index_body, strategy=truncate_index_case, quick=600, thorough=10000,
        clause="truncate_by_index leaves x[start:stop], y[start:stop]"),
    Sub("history", "hyp", history_body, strategy=history_case, quick=300, thorough=5000,
        clause="all four selectors on ONE Weaver, alternating with steps that move the grid (same or other sample "
               "count): every call selects from the series as it is at that moment"),
]
