"""C14 - trend, shift, scale and normalise are exact pointwise maps."""
import copy
import math
from fractions import Fraction

import numpy as np
from hypothesis import strategies as st

from twv.runner import Sub, Violation, canon
from twv.gens import fl, series, xs, ys

import traffic_weaver.process as process
from traffic_weaver import Weaver

PROPERTY = "C14"
LEVEL = "exploration"
RULE = ("Hypothesis builds series of 2..40 (thorough ..120) points from the shared generators (seven spacing kinds "
        "incl. abscissae that do not start at 0, negative and 1e6-offset ones; seven value kinds), handed over as "
        "float64 ndarrays, Python lists or int64 arrays. Trend callables are data: polynomials of degree 1..3 "
        "(Horner), A*sin(w*t+phi), constants, zero, and a*t through linear_trend; both `normalized` flags, passed "
        "by keyword / position / omitted. Shift/scale: programs of 1..5 Weaver operations (shift_x, shift_y, "
        "scale_x, scale_y) with integer, dyadic and float arguments (scales non-zero, both signs), optionally after "
        "a trend so that working and reference ordinates differ. Normalise: process.normalize and "
        "Weaver.normalize_x/_y with default, integer and float target ranges (narrow down to 2e-3 of the "
        "magnitude), optionally after a trend and a shift/scale. same_callable: ONE callable object applied in a "
        "sequence of 3..8 calls (process.trend, linear_trend, fresh Weaver, one long-lived Weaver with shift_x / "
        "scale_x / shift_y in between) to 2..4 axes that share length and both end points but not the interior "
        "spacing (one uniform), plus optionally an unrelated axis, two ordinate vectors each, handed over as fresh "
        "arrays, lists or the same caller arrays edited in place, some steps repeated verbatim after the previous "
        "result has been overwritten. normalize_seq: 3..8 normalize calls on arrays sharing length, first / last "
        "element, minimum and maximum. Non-trivial = non-zero trend / non-identity map "
        "on a series with non-constant ordinates; distinct = distinct full input.")
ASSUMPTIONS = [
    "x strictly increasing with >= 2 samples; trend callables restricted to the generated polynomial / sinusoid / "
    "constant family, coefficients |c| <= 10 (sin amplitude <= 100)",
    "trend sums compared with 1e-12 * (|y_i| + sum_k |c_k t^k|) (the callable itself is shared between the call "
    "and the oracle, its argument x_i resp. x_i/(x_last-x_first) is recomputed independently)",
    "shifts |s| <= 1e3, scales 1e-3 <= |c| <= 1e3; x+s, c*x compared bitwise with the same IEEE operation done "
    "per sample on Python numbers",
    "normalise: data non-constant, min_val < max_val, |min_val| <= 1e3 and max_val - min_val >= 1e-3 * "
    "max(1, |min_val|, |max_val|) (for narrower targets the final `+ min_val` rounds away the spacing and only "
    "non-strict order survives); 'max -> max_val within 2 ulp' is measured in ulp of max(|min_val|, |max_val|) "
    "(a rigorous bound for two correctly rounded operations; observed worst 1.0; in ulp of max_val itself the "
    "documented formula is off by up to 1e10 when max_val is small against min_val - cancellation, not asserted); "
    "order is asserted non-strictly (a_i < a_j => r_i <= r_j, a_i == a_j => r_i == r_j); ratios "
    "(r_i - r_min)/(r_max - r_min) compared with the exact rational (a_i - a_min)/(a_max - a_min) to 1e-9",
    "negative scale_x makes x decreasing; only the pointwise map is asserted there, no later operation uses it",
    "the first verdict for a case is kept for the rest of the process, so that a library whose answer depends on "
    "earlier calls (caches, counters) yields a violation rather than a 'flaky' harness error; a replay of such a "
    "case in isolation may then pass",
]
TECHNIQUE = ("Hypothesis-generated series, data-described trend callables and operation programs checked against "
             "closed forms written from the statement (per-sample Python arithmetic, exact rationals for the "
             "normalisation ratios), at process and Weaver level incl. reference series and caller arrays")
LEVEL_TEXT = ("Randomized exploration with independent closed-form oracles: every sample of every result is "
              "recomputed from the statement's formula; shift/scale bitwise; normalisation by its defining properties "
              "(end points, order, exact-rational spacing ratios) rather than by re-running the formula. The input "
              "space is unbounded, so this samples it; the generator puts mass on the fixture's blind spots "
              "(x not starting at 0, non-integer y, both flags, int/list inputs).")
LEVEL_NOTE = ("trusts the ~40 lines of oracle code in this module and the stated tolerances; trend callables limited "
              "to the generated family")

RTOL = 1e-12

# ---- history-dependent faults ----------------------------------------------------------------------------------------
# A library that keeps state between calls can answer the same case differently the second time; Hypothesis
# re-executes a failing case and would call the verdict "flaky" (a harness error).  A wrong answer for a valid
# input is a violation however often it can be reproduced, so the first verdict for a case is kept for the rest of
# the process (not during --replay, which must show what the case does in isolation).
_VERDICTS = {}


def sticky(body):
    def wrapped(ctx, case):
        key = None if ctx.replaying else canon(case)
        if key in _VERDICTS:
            raise _VERDICTS[key]     # the very same exception object: same origin for Hypothesis, same message
        try:
            body(ctx, case)
        except Exception as e:       # noqa: B902  Violation, or an exception out of the library (a violation too)
            if key is not None:
                _VERDICTS[key] = e
            raise
    wrapped.__name__ = body.__name__
    return wrapped



# ---- trend family (data -> callable, magnitude) ------------------------------------------------------------------

def make_fun(spec):
    kind = spec["kind"]
    if kind == "zero":
        return lambda t: 0.0
    if kind == "const":
        c = spec["c"]
        return lambda t: c
    if kind == "linear":
        a = spec["a"]
        return lambda t: a * t
    if kind == "poly":
        coef = list(spec["coef"])

        def poly(t):
            r = 0.0
            for c in reversed(coef):
                r = r * t + c
            return r
        return poly
    if kind == "sin":
        A, w, phi = spec["A"], spec["w"], spec["phi"]
        return lambda t: A * math.sin(w * t + phi)
    if kind == "sum":
        fs = [make_fun(s) for s in spec["terms"]]
        return lambda t: sum(f(t) for f in fs)
    raise RuntimeError(f"unknown trend kind {kind}")


def magnitude(spec, t):
    """Sum of the magnitudes of the terms that enter f(t) (local scale of the tolerance)."""
    kind = spec["kind"]
    if kind == "zero":
        return 0.0
    if kind == "const":
        return abs(spec["c"])
    if kind == "linear":
        return abs(spec["a"] * t)
    if kind == "poly":
        return math.fsum(abs(c) * abs(t) ** k for k, c in enumerate(spec["coef"]))
    if kind == "sin":
        return abs(spec["A"])
    if kind == "sum":
        return math.fsum(magnitude(s, t) for s in spec["terms"])
    raise RuntimeError(kind)


def is_zero_trend(spec):
    kind = spec["kind"]
    if kind == "zero":
        return True
    if kind == "const":
        return spec["c"] == 0
    if kind == "linear":
        return spec["a"] == 0
    if kind == "poly":
        return all(c == 0 for c in spec["coef"])
    if kind == "sum":
        return all(is_zero_trend(s) for s in spec["terms"])
    return False


def trend_oracle(x, y, spec, normalized):
    """Closed form from the statement: y_i + f(x_i) or y_i + f(x_i / (x_last - x_first)).  Python floats only."""
    xf = [float(v) for v in x]
    f = make_fun(spec)
    span = xf[-1] - xf[0]
    want, scale = [], []
    for xi, yi in zip(xf, y):
        t = xi / span if normalized else xi
        fv = float(f(t))
        want.append(float(yi) + fv)
        scale.append(abs(float(yi)) + magnitude(spec, t))
    return want, scale


_coef = st.one_of(st.integers(-5, 5).map(float), st.integers(-40, 40).map(lambda k: k / 8.0), fl(-10.0, 10.0))
_coef_nz = st.one_of(st.sampled_from([-3.0, -1.0, -0.5, 0.25, 1.0, 2.0, 5.0]), fl(0.01, 10.0), fl(-10.0, -0.01))


@st.composite
def trend_spec(draw, allow_zero=True):
    kinds = ["poly", "poly", "sin", "const"] + (["zero"] if allow_zero else [])
    kind = draw(st.sampled_from(kinds))
    if kind == "zero":
        return dict(kind="zero")
    if kind == "const":
        return dict(kind="const", c=draw(_coef_nz))
    if kind == "sin":
        return dict(kind="sin", A=draw(st.one_of(fl(0.1, 100.0), fl(-100.0, -0.1))), w=draw(fl(0.01, 10.0)),
                    phi=draw(fl(0.0, 6.28)))
    deg = draw(st.integers(1, 3))
    coef = [draw(_coef) for _ in range(deg)] + [draw(_coef_nz)]
    return dict(kind="poly", coef=coef)


def trend_class(spec):
    if spec["kind"] == "poly":
        return f"f:poly{len(spec['coef']) - 1}"
    return "f:" + spec["kind"]


# ---- inputs ---------------------------------------------------------------------------------------------------

@st.composite
def series_case(draw, ctx, nonconstant=False):
    s = draw(series(2, ctx.pick(40, 120), nonconstant=nonconstant))
    container = "list" if s["as_list"] else draw(st.sampled_from(["ndarray", "ndarray", "int"]))
    return dict(x=s["x"], y=s["y"], xkind=s["xkind"], ykind=s["ykind"], container=container)


def _intlike(vals):
    return all(float(v).is_integer() and abs(v) < 2 ** 40 for v in vals)


def build(vals, container):
    """The object handed to the code under test: float64 ndarray, Python list, or int64 ndarray (when every
    value is an integer; otherwise float64)."""
    if container == "list":
        return [int(v) if isinstance(v, int) else float(v) for v in vals]
    if container == "int" and _intlike(vals):
        return np.array([int(v) for v in vals], dtype=np.int64)
    return np.array([float(v) for v in vals], dtype=np.float64)


def same_input(now, kept):
    if type(now) is not type(kept):
        return False
    if isinstance(kept, np.ndarray):
        return now.dtype == kept.dtype and now.shape == kept.shape and now.tobytes() == kept.tobytes()
    return now == kept and all(type(a) is type(b) for a, b in zip(now, kept))


def input_classes(case, xin, yin):
    cls = {"x:" + case["xkind"], "y:" + case["ykind"], "in:" + case["container"],
           "x0=0" if float(case["x"][0]) == 0.0 else "x0!=0"}
    if isinstance(xin, np.ndarray) and np.issubdtype(xin.dtype, np.integer):
        cls.add("x-int-dtype")
    if isinstance(yin, np.ndarray) and np.issubdtype(yin.dtype, np.integer):
        cls.add("y-int-dtype")
    if case["x"][0] < 0 < case["x"][-1]:
        cls.add("x-spans-0")
    return cls


def nonconstant(vals):
    return any(v != vals[0] for v in vals)


def as_float_array(a, n, what):
    if not isinstance(a, np.ndarray):
        raise Violation(f"{what} is {type(a).__name__}, not ndarray")
    if a.shape != (n,):
        raise Violation(f"{what} has shape {a.shape}, expected ({n},)")
    if not (np.issubdtype(a.dtype, np.floating) or np.issubdtype(a.dtype, np.integer)):
        raise Violation(f"{what} has dtype {a.dtype}, expected a real numeric dtype")
    a = a.astype(np.float64) if not np.issubdtype(a.dtype, np.floating) else a
    if not np.all(np.isfinite(a)):
        raise Violation(f"{what} contains non-finite values")
    return a


def as_num_array(a, n, what):
    if not isinstance(a, np.ndarray):
        raise Violation(f"{what} is {type(a).__name__}, not ndarray")
    if a.shape != (n,):
        raise Violation(f"{what} has shape {a.shape}, expected ({n},)")
    if not (np.issubdtype(a.dtype, np.floating) or np.issubdtype(a.dtype, np.integer)):
        raise Violation(f"{what} has dtype {a.dtype}")
    if not np.all(np.isfinite(a)):
        raise Violation(f"{what} contains non-finite values")
    return a


def pair(res, n, what):
    if not (isinstance(res, tuple) and len(res) == 2):
        raise Violation(f"{what} did not return a pair")
    return res


def check_values(got, want, scale, what, detail=None):
    for i, (g, w, s) in enumerate(zip(got, want, scale)):
        if not abs(float(g) - w) <= RTOL * s:
            raise Violation(f"{what}: sample {i} is {float(g)!r}, expected {w!r} (tol {RTOL * s:.3g})", detail=detail)


def check_x_untouched(xr, x, what):
    if not np.array_equal(xr, np.array([float(v) for v in x])):
        raise Violation(f"{what}: x values changed")


def call_trend_kwargs(case):
    """How the `normalized` flag is handed over: omitted (only when False), keyword or positional."""
    mode = case.get("flag_mode", "kw")
    if mode == "omit" and not case["normalized"]:
        return (), {}
    if mode == "pos":
        return (case["normalized"],), {}
    return (), dict(normalized=case["normalized"])


# ---- 1. process.trend / linear_trend ------------------------------------------------------------------------------

@st.composite
def trend_case(draw, ctx):
    c = draw(series_case(ctx))
    c["normalized"] = draw(st.booleans())
    c["flag_mode"] = draw(st.sampled_from(["kw", "pos", "omit"]))
    if draw(st.sampled_from([False, False, True, False])):
        c["api"] = "linear_trend"
        c["f"] = dict(kind="linear", a=draw(st.one_of(_coef_nz, _coef_nz, st.integers(-3, 3))))
    else:
        c["api"] = "trend"
        c["f"] = draw(trend_spec())
    return c


def trend_body(ctx, case):
    x, y, spec, normalized = case["x"], case["y"], case["f"], case["normalized"]
    n = len(x)
    xin, yin = build(x, case["container"]), build(y, case["container"])
    xk, yk = copy.deepcopy(xin), copy.deepcopy(yin)
    args, kw = call_trend_kwargs(case)
    if case["api"] == "linear_trend":
        res = process.linear_trend(xin, yin, spec["a"], *args, **kw)
    else:
        res = process.trend(xin, yin, make_fun(spec), *args, **kw)
    xr, yr = pair(res, n, case["api"])
    xr = as_float_array(xr, n, f"{case['api']} x")
    yr = as_float_array(yr, n, f"{case['api']} y")
    want, scale = trend_oracle(x, y, spec, normalized)
    check_values(yr, want, scale, f"{case['api']}(normalized={normalized})")
    check_x_untouched(xr, x, case["api"])
    if not same_input(xin, xk):
        raise Violation(f"{case['api']} modified the caller's x")
    if not same_input(yin, yk):
        raise Violation(f"{case['api']} modified the caller's y")
    if is_zero_trend(spec) and not np.array_equal(yr, np.array([float(v) for v in y])):
        raise Violation("zero trend is not the identity")
    cls = input_classes(case, xin, yin) | {trend_class(spec), f"normalized={normalized}", "api:" + case["api"],
                                           "flag:" + case["flag_mode"]}
    ctx.record(case, cls, nontrivial=not is_zero_trend(spec) and nonconstant(y))


# ---- 2. trends add up -----------------------------------------------------------------------------------------------

@st.composite
def additive_case(draw, ctx):
    c = draw(series_case(ctx))
    c["normalized"] = draw(st.booleans())
    c["f"] = draw(trend_spec())
    c["g"] = draw(trend_spec())
    c["level"] = draw(st.sampled_from(["process", "weaver"]))
    return c


def additive_body(ctx, case):
    x, y, normalized = case["x"], case["y"], case["normalized"]
    n = len(x)
    f, g = case["f"], case["g"]
    fg = dict(kind="sum", terms=[f, g])
    mk = lambda: (build(x, case["container"]), build(y, case["container"]))   # noqa: E731
    if case["level"] == "process":
        xin, yin = mk()
        x1, y1 = pair(process.trend(xin, yin, make_fun(f), normalized=normalized), n, "trend")
        as_float_array(x1, n, "trend x")
        as_float_array(y1, n, "trend y")
        two = pair(process.trend(x1, y1, make_fun(g), normalized=normalized), n, "trend")
        xin, yin = mk()
        one = pair(process.trend(xin, yin, make_fun(fg), normalized=normalized), n, "trend")
    else:
        xin, yin = mk()
        two = pair(Weaver(xin, yin).trend(make_fun(f), normalized=normalized)
                   .trend(make_fun(g), normalized=normalized).get(), n, "Weaver.get")
        xin, yin = mk()
        one = pair(Weaver(xin, yin).trend(make_fun(fg), normalized=normalized).get(), n, "Weaver.get")
    x2, y2 = as_float_array(two[0], n, "x after two trends"), as_float_array(two[1], n, "y after two trends")
    x3, y3 = as_float_array(one[0], n, "x after summed trend"), as_float_array(one[1], n, "y after summed trend")
    want, scale = trend_oracle(x, y, fg, normalized)
    check_values(y2, want, scale, "trend(g) after trend(f) vs y + f + g")
    check_values(y3, want, scale, "trend(f+g) vs y + f + g")
    check_values(y2, [float(v) for v in y3], scale, "trend(g) o trend(f) vs trend(f+g)")
    check_x_untouched(x2, x, "two trends")
    check_x_untouched(x3, x, "summed trend")
    cls = input_classes(case, xin, yin) | {trend_class(f), trend_class(g), f"normalized={normalized}",
                                           "level:" + case["level"]}
    ctx.record(case, cls, nontrivial=not is_zero_trend(f) and not is_zero_trend(g) and nonconstant(y))


# ---- 3. Weaver.trend --------------------------------------------------------------------------------------------------

@st.composite
def weaver_trend_case(draw, ctx):
    c = draw(series_case(ctx))
    c["normalized"] = draw(st.booleans())
    c["flag_mode"] = draw(st.sampled_from(["kw", "pos", "omit"]))
    c["f"] = draw(trend_spec())
    return c


def weaver_series(w, n, getter, what):
    res = pair(getattr(w, getter)(), n, f"Weaver.{getter}")
    return as_num_array(res[0], n, f"{what} x"), as_num_array(res[1], n, f"{what} y")


def weaver_trend_body(ctx, case):
    x, y, spec, normalized = case["x"], case["y"], case["f"], case["normalized"]
    n = len(x)
    xin, yin = build(x, case["container"]), build(y, case["container"])
    xk, yk = copy.deepcopy(xin), copy.deepcopy(yin)
    w = Weaver(xin, yin)
    args, kw = call_trend_kwargs(case)
    w.trend(make_fun(spec), *args, **kw)
    wx, wy = weaver_series(w, n, "get", "working")
    as_float_array(wy, n, "working y after trend")
    want, scale = trend_oracle(x, y, spec, normalized)
    check_values(wy, want, scale, f"Weaver.trend(normalized={normalized})")
    check_x_untouched(wx, x, "Weaver.trend")
    x0, y0 = np.asarray(xk), np.asarray(yk)
    for getter in ("get_reference", "get_original"):
        gx, gy = weaver_series(w, n, getter, getter)
        if not (np.array_equal(gx, x0) and np.array_equal(gy, y0)):
            raise Violation(f"Weaver.trend changed {getter}()")
    if not same_input(xin, xk):
        raise Violation("Weaver.trend modified the caller's x")
    if not same_input(yin, yk):
        raise Violation("Weaver.trend modified the caller's y")
    if is_zero_trend(spec) and not np.array_equal(wy, y0.astype(float)):
        raise Violation("zero trend is not the identity (Weaver)")
    cls = input_classes(case, xin, yin) | {trend_class(spec), f"normalized={normalized}", "flag:" + case["flag_mode"]}
    ctx.record(case, cls, nontrivial=not is_zero_trend(spec) and nonconstant(y))


# ---- 4. shift / scale ----------------------------------------------------------------------------------------------------

_shift = st.one_of(st.integers(-20, 20), st.integers(-80, 80).map(lambda k: k / 8.0), fl(-1e3, 1e3))
_scale_mag = st.one_of(st.integers(1, 6), st.integers(1, 40).map(lambda k: k / 8.0),
                       fl(-3.0, 3.0).map(lambda e: 10.0 ** e))


@st.composite
def scale_value(draw):
    v = draw(_scale_mag)
    return -v if draw(st.integers(0, 2)) == 0 else v


@st.composite
def op_list(draw, lo, hi):
    k = draw(st.integers(lo, hi))
    pool = draw(st.lists(st.sampled_from(["shift_x", "shift_y", "scale_x", "scale_y"]), min_size=1, max_size=2,
                         unique=True)) if draw(st.booleans()) else ["shift_x", "shift_y", "scale_x", "scale_y"]
    ops = []
    for _ in range(k):
        op = draw(st.sampled_from(pool))
        ops.append(dict(op=op, v=draw(_shift) if op.startswith("shift") else draw(scale_value())))
    return ops


@st.composite
def shift_scale_case(draw, ctx):
    c = draw(series_case(ctx))
    c["ops"] = draw(op_list(1, 5))
    c["pre_trend"] = draw(trend_spec(allow_zero=False)) if draw(st.integers(0, 2)) == 0 else None
    return c


def apply_model(op, v, xs_, ys_):
    """x+s, y+s, c*x, c*y per sample on Python numbers (IEEE double / exact int, the same operation NumPy does)."""
    if op == "shift_x":
        return [a + v for a in xs_], ys_
    if op == "shift_y":
        return xs_, [a + v for a in ys_]
    if op == "scale_x":
        return [a * v for a in xs_], ys_
    if op == "scale_y":
        return xs_, [a * v for a in ys_]
    raise RuntimeError(op)


def equal_exact(got, want_list):
    return np.array_equal(got, np.array(want_list))


def shift_scale_body(ctx, case):
    x, y = case["x"], case["y"]
    n = len(x)
    xin, yin = build(x, case["container"]), build(y, case["container"])
    xk, yk = copy.deepcopy(xin), copy.deepcopy(yin)
    w = Weaver(xin, yin)
    if case["pre_trend"] is not None:
        w.trend(make_fun(case["pre_trend"]))
    wx, wy = weaver_series(w, n, "get", "working")
    rx, ry = weaver_series(w, n, "get_reference", "reference")
    mwx, mwy, mrx, mry = wx.tolist(), wy.tolist(), rx.tolist(), ry.tolist()
    ox, oy = np.asarray(xk), np.asarray(yk)
    cls = input_classes(case, xin, yin)
    identity = True
    for k, o in enumerate(case["ops"]):
        op, v = o["op"], o["v"]
        getattr(w, op)(v)
        mwx, mwy = apply_model(op, v, mwx, mwy)
        mrx, mry = apply_model(op, v, mrx, mry)
        gx, gy = weaver_series(w, n, "get", "working")
        hx, hy = weaver_series(w, n, "get_reference", "reference")
        for name, got, want in (("working x", gx, mwx), ("working y", gy, mwy), ("reference x", hx, mrx),
                                ("reference y", hy, mry)):
            if not equal_exact(got, want):
                bad = next(i for i in range(n) if got[i] != want[i])
                raise Violation(f"step {k} {op}({v!r}): {name}[{bad}] is {got[bad].item()!r}, expected {want[bad]!r}",
                                detail=dict(step=k, op=op, v=v))
        px, py = weaver_series(w, n, "get_original", "original")
        if not (np.array_equal(px, ox) and np.array_equal(py, oy)):
            raise Violation(f"step {k} {op}({v!r}) changed get_original()")
        cls.add(op)
        cls.add(f"{op}:{'int' if isinstance(v, int) else 'float'}-arg")
        if op.startswith("scale") and v < 0:
            cls.add(op + "<0")
        if (op.startswith("shift") and v != 0) or (op.startswith("scale") and v != 1):
            identity = False
    if not same_input(xin, xk):
        raise Violation("shift/scale modified the caller's x")
    if not same_input(yin, yk):
        raise Violation("shift/scale modified the caller's y")
    kinds = [o["op"] for o in case["ops"]]
    if any(kinds.count(k) >= 2 for k in set(kinds)):
        cls.add("same-op-twice")
    cls.add(f"ops={len(kinds)}")
    cls.add("after-trend" if case["pre_trend"] is not None else "fresh")
    ctx.record(case, cls, nontrivial=not identity and nonconstant(y))


# ---- 5./6. normalise ------------------------------------------------------------------------------------------------------

@st.composite
def target_range(draw):
    kind = draw(st.sampled_from(["unit", "ints", "float", "narrow", "wide", "indep", "indep"]))
    if kind == "unit":
        return dict(kind=kind, lo=0, hi=1)
    if kind == "ints":
        lo = draw(st.integers(-20, 20))
        return dict(kind=kind, lo=lo, hi=lo + draw(st.integers(1, 40)))
    if kind == "indep":
        # both ends drawn independently (max_val is not lo + something, so `(max_val - min_val) + min_val` rounds)
        mag = 10.0 ** draw(st.integers(-3, 0))
        a, b = draw(fl(-1e3, 1e3)) * mag, draw(fl(-1e3, 1e3)) * mag
        lo, hi = min(a, b), max(a, b)
        if not hi - lo >= 1e-3 * max(1.0, abs(lo), abs(hi)):
            hi = lo + 2e-3 * max(1.0, abs(lo))
        return dict(kind=kind, lo=lo, hi=hi)
    lo = draw(st.one_of(st.sampled_from([0.0, 1.0, -1.0]), fl(-1e3, 1e3)))
    if kind == "wide":
        return dict(kind=kind, lo=lo, hi=lo + draw(fl(1.0, 1e3)))
    e = draw(fl(-2.7, -2.0)) if kind == "narrow" else draw(fl(-2.0, 0.0))
    hi = lo + (10.0 ** e) * max(1.0, abs(lo))
    return dict(kind=kind, lo=lo, hi=hi)


def check_normalised(before, after, lo, hi, what):
    """The defining properties from the statement (no re-run of the formula): min -> min_val exactly,
    max -> max_val within 2 ulp, order preserved (non-strict), equal inputs -> equal outputs, spacing ratios kept."""
    n = len(before)
    after = as_float_array(after, n, what)
    b = [v for v in before]
    a = [float(v) for v in after]
    bmin, bmax = min(b), max(b)
    ulp = math.ulp(max(abs(float(lo)), abs(float(hi))))
    imin = imax = None
    off = 0.0
    for i in range(n):
        if b[i] == bmin:
            imin = i
            if a[i] != lo:
                raise Violation(f"{what}: minimum (sample {i}) mapped to {a[i]!r}, not min_val={lo!r}")
        if b[i] == bmax:
            imax = i
            off = max(off, abs(a[i] - hi) / ulp)
            if not abs(a[i] - hi) <= 2 * ulp:
                raise Violation(f"{what}: maximum (sample {i}) mapped to {a[i]!r}, not max_val={hi!r} "
                                f"(off by {(a[i] - hi) / ulp:.3g} ulp)")
    order = sorted(range(n), key=lambda i: b[i])
    for p, q in zip(order[:-1], order[1:]):
        if b[p] == b[q]:
            if a[p] != a[q]:
                raise Violation(f"{what}: equal inputs (samples {p},{q}) mapped to different values")
        elif not a[p] <= a[q]:
            raise Violation(f"{what}: order reversed: in[{p}]={b[p]!r} < in[{q}]={b[q]!r} but out {a[p]!r} > {a[q]!r}")
    fb = [Fraction(v) for v in b]
    fa = [Fraction(v) for v in a]
    db, da = fb[imax] - fb[imin], fa[imax] - fa[imin]
    if da <= 0:
        raise Violation(f"{what}: image of the maximum {a[imax]!r} not above image of the minimum {a[imin]!r}")
    worst = 0.0
    for i in range(n):
        dev = abs(float((fa[i] - fa[imin]) / da - (fb[i] - fb[imin]) / db))
        worst = max(worst, dev)
        if not dev <= 1e-9:
            raise Violation(f"{what}: relative position of sample {i} changed by {dev:.3g} "
                            f"(in {float((fb[i] - fb[imin]) / db)!r}, out {float((fa[i] - fa[imin]) / da)!r})")
    return worst, off


def count_margins(ctx, worst, off):
    """Side counters that show how far the current tree stays below the tolerances."""
    if worst > 1e-12:
        ctx.count("ratio-dev>1e-12")
    if off > 0:
        ctx.count("max-off>0ulp")
    if off > 1:
        ctx.count("max-off>1ulp")


@st.composite
def normalize_case(draw, ctx):
    m = draw(st.integers(2, ctx.pick(40, 120)))
    if draw(st.integers(0, 3)) == 0:
        d = draw(xs(m))
        vals, kind = d["x"], "x:" + d["kind"]
    else:
        d = draw(ys(m, nonconstant=True))
        vals, kind = d["y"], "y:" + d["kind"]
    container = draw(st.sampled_from(["ndarray", "ndarray", "list", "int"]))
    return dict(a=vals, akind=kind, container=container, target=draw(target_range()),
                defaults=draw(st.sampled_from([False, False, True, False, False, False])))


def normalize_body(ctx, case):
    vals = case["a"]
    n = len(vals)
    ain = build(vals, case["container"])
    ak = copy.deepcopy(ain)
    if case["defaults"]:
        lo, hi = 0, 1
        res = process.normalize(ain)
    else:
        lo, hi = case["target"]["lo"], case["target"]["hi"]
        res = process.normalize(ain, lo, hi) if case["target"]["kind"] not in ("wide", "float") else \
            process.normalize(ain, min_val=lo, max_val=hi)
    worst, off = check_normalised(np.asarray(ak).tolist(), res, lo, hi, "normalize")
    if not same_input(ain, ak):
        raise Violation("normalize modified its input")
    cls = {case["akind"], "in:" + case["container"], "range:" + ("default" if case["defaults"]
                                                                  else case["target"]["kind"])}
    if isinstance(ain, np.ndarray) and np.issubdtype(ain.dtype, np.integer):
        cls.add("int-dtype")
    if len(set(vals)) < n:
        cls.add("ties")
    count_margins(ctx, worst, off)
    identity = (min(vals) == lo and max(vals) == hi)
    ctx.record(case, cls, nontrivial=not identity)


@st.composite
def weaver_normalize_case(draw, ctx):
    c = draw(series_case(ctx, nonconstant=True))
    c["axis"] = draw(st.sampled_from(["x", "y", "y"]))
    c["target"] = draw(target_range())
    c["pre_trend"] = draw(trend_spec(allow_zero=False)) if draw(st.integers(0, 2)) == 0 else None
    c["pre_ops"] = draw(op_list(1, 2)) if draw(st.booleans()) else []
    return c


def weaver_normalize_body(ctx, case):
    x, y, axis = case["x"], case["y"], case["axis"]
    lo, hi = case["target"]["lo"], case["target"]["hi"]
    n = len(x)
    xin, yin = build(x, case["container"]), build(y, case["container"])
    xk, yk = copy.deepcopy(xin), copy.deepcopy(yin)
    w = Weaver(xin, yin)
    if case["pre_trend"] is not None:
        w.trend(make_fun(case["pre_trend"]))
    for o in case["pre_ops"]:
        getattr(w, o["op"])(o["v"])
    before = {g: tuple(a.copy() for a in weaver_series(w, n, g, g)) for g in ("get", "get_reference")}
    k = 0 if axis == "x" else 1
    for g in before:
        col = before[g][k]
        if not np.all(np.isfinite(col)) or col.min() == col.max():
            ctx.count("constant-after-preparation-skipped")   # precondition of normalise: non-constant data
            return
    getattr(w, "normalize_" + axis)(lo, hi)
    for g in ("get", "get_reference"):
        now = weaver_series(w, n, g, g)
        count_margins(ctx, *check_normalised(before[g][k].tolist(), now[k], lo, hi, f"normalize_{axis}: {g}()[{k}]"))
        if not np.array_equal(now[1 - k], before[g][1 - k]):
            raise Violation(f"normalize_{axis} changed the other coordinate of {g}()")
    if case["pre_trend"] is None:
        a, b = weaver_series(w, n, "get", "working"), weaver_series(w, n, "get_reference", "reference")
        if not (np.array_equal(a[0], b[0]) and np.array_equal(a[1], b[1])):
            raise Violation(f"normalize_{axis}: working and reference series differ although they were identical")
    if not same_input(xin, xk):
        raise Violation("normalize modified the caller's x")
    if not same_input(yin, yk):
        raise Violation("normalize modified the caller's y")
    cls = input_classes(case, xin, yin) | {"axis:" + axis, "range:" + case["target"]["kind"],
                                           "after-trend" if case["pre_trend"] is not None else "no-trend",
                                           f"pre-ops={len(case['pre_ops'])}"}
    for o in case["pre_ops"]:
        cls.add("pre:" + o["op"])
        if o["op"].startswith("scale") and o["v"] < 0:
            cls.add("pre:" + o["op"] + "<0")
    ctx.record(case, cls, nontrivial=True)


# ---- 7. one callable, several axes (no state may leak between calls) -------------------------------------------------------

@st.composite
def axis_group(draw, ctx):
    """2..4 axes of equal length with identical first and last abscissa but different interior spacing (the first
    is uniform), each with two ordinate vectors; optionally one more axis of another length / other end points."""
    n = draw(st.integers(3, ctx.pick(16, 40)))
    x0 = draw(st.one_of(st.sampled_from([0.0, 1.0, -3.0, 5.0]), fl(-100.0, 100.0)))
    span = draw(st.one_of(st.sampled_from([1.0, float(n - 1), 10.0]), fl(0.5, 200.0)))
    xl = x0 + span
    grids = [[x0 + span * k / (n - 1) for k in range(n - 1)] + [xl]]
    for _ in range(draw(st.integers(1, 3))):
        g = draw(st.lists(fl(0.05, 1.0), min_size=n - 1, max_size=n - 1))
        tot = math.fsum(g)
        acc, x = 0.0, [x0]
        for v in g[:-1]:
            acc += v
            x.append(x0 + span * (acc / tot))
        x.append(xl)
        grids.append(x)
    axes = []
    for i, x in enumerate(grids):
        if not all(b > a for a, b in zip(x[:-1], x[1:])):
            x = list(grids[0])                      # cannot happen for the bounds above; keeps the input valid anyway
        axes.append(dict(x=[float(v) for v in x], kind="uniform" if i == 0 else "nonuniform",
                         ys=[draw(ys(n))["y"], draw(ys(n))["y"]]))
    if draw(st.sampled_from([0, 0, 1])):
        m = draw(st.integers(2, ctx.pick(16, 40)))
        xd = draw(xs(m, allow_int=False))
        axes.append(dict(x=xd["x"], kind="other", ys=[draw(ys(m))["y"], draw(ys(m))["y"]]))
    return axes


_chain_pre = st.one_of(
    st.none(),
    st.builds(lambda v: dict(op="shift_x", v=v), st.one_of(st.sampled_from([1.0, -2.5, 10]), fl(-50.0, 50.0))),
    st.builds(lambda v: dict(op="scale_x", v=v), st.one_of(st.sampled_from([2, 0.5, 3.0]), fl(0.1, 10.0))),
    st.builds(lambda v: dict(op="shift_y", v=v), fl(-10.0, 10.0)))


@st.composite
def same_callable_case(draw, ctx):
    axes = draw(axis_group(ctx))
    steps = []
    for _ in range(draw(st.integers(3, 8))):
        if steps and draw(st.sampled_from([0, 1, 0, 0])):
            steps.append(dict(steps[-1], repeat=True))          # same callable, same objects, once more
            continue
        api = draw(st.sampled_from(["trend", "trend", "linear_trend", "weaver", "weaver_chain"]))
        step = dict(api=api, axis=draw(st.integers(0, len(axes) - 1)), y=draw(st.integers(0, 1)),
                    normalized=draw(st.booleans()), via=draw(st.sampled_from(["shared", "fresh", "shared", "list"])),
                    repeat=False)
        if api == "weaver_chain":
            step["pre"] = draw(_chain_pre)
        steps.append(step)
    return dict(axes=axes, steps=steps, f=draw(trend_spec(allow_zero=False)), a=draw(_coef_nz))


def same_callable_body(ctx, case):
    axes, f_spec = case["axes"], case["f"]
    f = make_fun(f_spec)                         # ONE callable object for the whole sequence
    lin_spec = dict(kind="linear", a=case["a"])
    shared = {}                                  # length -> persistent caller-side arrays, edited in place
    chain = None                                 # one long-lived Weaver that gets the same callable repeatedly
    cls = set()
    used = set()
    for k, s in enumerate(case["steps"]):
        api, normalized = s["api"], s["normalized"]
        what = f"step {k} ({api}, axis {s['axis']}, y {s['y']}, normalized={normalized}, {s['via']})"
        cls.update({"api:" + api, f"normalized={normalized}"})
        if api == "weaver_chain":
            if chain is None:
                chain = Weaver(np.array(axes[0]["x"], dtype=float), np.array(axes[0]["ys"][0], dtype=float))
            pre = s.get("pre")
            if pre is not None:
                getattr(chain, pre["op"])(pre["v"])
                cls.add("chain-pre:" + pre["op"])
            n = len(axes[0]["x"])
            cx, cy = (a.copy() for a in weaver_series(chain, n, "get", "chain"))
            chain.trend(f, normalized=normalized)
            gx, gy = weaver_series(chain, n, "get", "chain")
            want, scale = trend_oracle(cx.tolist(), cy.tolist(), f_spec, normalized)
            check_values(as_float_array(gy, n, "chain y"), want, scale, what)
            check_x_untouched(gx, cx.tolist(), what)
            continue
        ax = axes[s["axis"]]
        x, y = ax["x"], ax["ys"][s["y"]]
        n = len(x)
        if s["via"] == "shared":
            if n not in shared:
                shared[n] = (np.empty(n), np.empty(n))
            xin, yin = shared[n]
            xin[:] = x                           # the same array objects as before, new contents
            yin[:] = y
        elif s["via"] == "list":
            xin, yin = [float(v) for v in x], [float(v) for v in y]
        else:
            xin, yin = np.array(x, dtype=float), np.array(y, dtype=float)
        xk, yk = copy.deepcopy(xin), copy.deepcopy(yin)
        spec = f_spec
        if api == "trend":
            xr, yr = pair(process.trend(xin, yin, f, normalized=normalized), n, api)
        elif api == "linear_trend":
            spec = lin_spec
            xr, yr = pair(process.linear_trend(xin, yin, case["a"], normalized), n, api)
        else:
            w = Weaver(xin, yin)
            w.trend(f, normalized=normalized)
            xr, yr = weaver_series(w, n, "get", "working")
        xr, yr = as_float_array(xr, n, what + " x"), as_float_array(yr, n, what + " y")
        want, scale = trend_oracle(x, y, spec, normalized)
        check_values(yr, want, scale, what, detail=dict(step=k))
        check_x_untouched(xr, x, what)
        if not (same_input(xin, xk) and same_input(yin, yk)):
            raise Violation(f"{what} modified the caller's arrays")
        # scribble on the result: nothing handed out earlier may be handed out (or used) again
        if isinstance(yin, list) or not np.shares_memory(yr, yin):
            yr.fill(1e300)
        if isinstance(xin, list) or not np.shares_memory(xr, xin):
            xr.fill(-1e300)
        if api != "linear_trend":
            used.add((s["axis"], normalized))
        cls.update({"via:" + s["via"], "axis:" + ax["kind"]})
        if s["repeat"]:
            cls.add("repeat-same-objects")
    naxes = len({a for a, _ in used})
    cls.add(f"axes-with-same-callable={min(naxes, 3)}{'+' if naxes > 3 else ''}")
    ctx.record(case, cls, nontrivial=naxes >= 2 and f_spec["kind"] != "const")


# ---- 8. normalize called repeatedly on look-alike arrays ---------------------------------------------------------------------

@st.composite
def normalize_seq_case(draw, ctx):
    n = draw(st.integers(3, ctx.pick(24, 60)))
    lo_v, hi_v = draw(fl(-100.0, 0.0)), draw(fl(1.0, 100.0))
    first, last = draw(st.sampled_from([(lo_v, hi_v), (hi_v, lo_v), (0.5, 0.75)]))
    arrays = []
    for _ in range(draw(st.integers(2, 4))):
        inner = draw(st.lists(fl(lo_v, hi_v), min_size=n, max_size=n))
        inner[0], inner[-1] = first, last
        inner[draw(st.integers(1, n - 2))] = lo_v if n > 3 else inner[1]     # same min / max in every array
        if n > 3:
            j = draw(st.integers(1, n - 2))
            if inner[j] != lo_v:
                inner[j] = hi_v
        arrays.append(inner)
    steps = [dict(a=draw(st.integers(0, len(arrays) - 1)), via=draw(st.sampled_from(["shared", "fresh", "shared"])),
                  target=draw(st.integers(0, 1))) for _ in range(draw(st.integers(3, 8)))]
    return dict(arrays=arrays, steps=steps, targets=[draw(target_range()), draw(target_range())])


def normalize_seq_body(ctx, case):
    n = len(case["arrays"][0])
    shared = np.empty(n)
    cls = set()
    for k, s in enumerate(case["steps"]):
        vals = case["arrays"][s["a"]]
        t = case["targets"][s["target"]]
        if min(vals) == max(vals):
            ctx.count("constant-skipped")
            continue
        if s["via"] == "shared":
            shared[:] = vals
            ain = shared
        else:
            ain = np.array(vals, dtype=float)
        res = process.normalize(ain, t["lo"], t["hi"])
        count_margins(ctx, *check_normalised(vals, res, t["lo"], t["hi"], f"step {k}: normalize"))
        if ain.tolist() != vals:
            raise Violation(f"step {k}: normalize modified its input")
        if not np.shares_memory(res, ain):
            res.fill(1e300)
        cls.update({"via:" + s["via"], "range:" + t["kind"]})
    ctx.record(case, cls, nontrivial=len({s["a"] for s in case["steps"]}) >= 2)


SUBCHECKS = [
    Sub("trend", "hyp", sticky(trend_body), strategy=trend_case, quick=400, thorough=5000,
        clause="process.trend / linear_trend add f(x_i) resp. f(x_i/(x_last-x_first)); x and the caller's arrays "
               "untouched; zero trend is the identity"),
    Sub("additive", "hyp", sticky(additive_body), strategy=additive_case, quick=400, thorough=5000,
        clause="trends add up: trend(g) after trend(f) == trend(f+g) == y + f + g (process and Weaver level)"),
    Sub("weaver_trend", "hyp", sticky(weaver_trend_body), strategy=weaver_trend_case, quick=400, thorough=5000,
        clause="Weaver.trend: same closed form; x, reference, original and caller arrays untouched"),
    Sub("shift_scale", "hyp", sticky(shift_scale_body), strategy=shift_scale_case, quick=400, thorough=5000,
        clause="shift_x/shift_y/scale_x/scale_y act as x+s, y+s, c*x, c*y (bitwise) on working and reference series "
               "after every step of a 1..5 step program; original and caller arrays untouched"),
    Sub("normalize", "hyp", sticky(normalize_body), strategy=normalize_case, quick=400, thorough=5000,
        clause="process.normalize: min -> min_val exactly, max -> max_val (2 ulp), order and relative spacing kept"),
    Sub("weaver_normalize", "hyp", sticky(weaver_normalize_body), strategy=weaver_normalize_case, quick=400, thorough=5000,
        clause="Weaver.normalize_x/_y: the same properties for working and reference series, other coordinate "
               "untouched"),
    Sub("same_callable", "hyp", sticky(same_callable_body), strategy=same_callable_case, quick=200, thorough=2500,
        clause="every call is judged by the closed form on ITS axis: one callable object applied in sequence to axes "
               "sharing length and end points but not the interior spacing, to caller arrays edited in place, to "
               "the same objects twice after scribbling on the first result, and repeatedly to one long-lived Weaver"),
    Sub("normalize_seq", "hyp", sticky(normalize_seq_body), strategy=normalize_seq_case, quick=150, thorough=2000,
        clause="normalize is a function of its arguments only: repeated calls on arrays sharing length, first/last "
               "element, minimum and maximum (same object edited in place or fresh) each satisfy the normalise clause"),
]
