"""C18 - every documented dataset is reachable by name and well-formed."""
import hashlib
import os
import re

import numpy as np
from hypothesis import strategies as st

from twv import remote_sim as rs
from twv.runner import Sub, Violation, SRC

import traffic_weaver.datasets._base as base
from traffic_weaver.datasets import load_dataset

PROPERTY = "C18"
LEVEL = "exploration"
RULE = ("names: every dataset name parsed at run time from the four shipped description tables (95 today) x spelling "
        "variants (as documented, all '_', all '-') x unpack flag, enumerated completely; remote ones are loaded "
        "with the network replaced by a recording fake transport, first with the real SHA-256 (payload must be "
        "refused, nothing cached), then with a checksum table (payload accepted, exactly one cache file under "
        "$TRAFFIC_WEAVER_DATA); metadata (URL, checksum, remote file name, cache slot) compared pairwise over all "
        "remote loaders. variants / unknown: Hypothesis-drawn mixed spellings and unknown names. Every enumerated "
        "(name, variant, flag) triple is distinct and counts as non-trivial.")
ASSUMPTIONS = ["the description tables shipped in data_description/*.md are the documentation of record",
               "remote payloads are synthetic (no network): what is checked is the wiring name -> loader -> URL / "
               "checksum / cache slot, not the real files' content"]
TECHNIQUE = "exhaustive enumeration of the documented names x spelling variants x flags against validity predicates, " \
            "with a recording fake transport; Hypothesis for mixed spellings and unknown names"
LEVEL_TEXT = ("The configuration space (95 names x variants x flag) is finite and enumerated completely on every run; "
              "pairwise distinctness of remote metadata is checked over all 76 remote loaders.")
LEVEL_NOTE = "trusts the fake transport in twv/remote_sim.py; the real files' checksums cannot be verified offline"

TABLES = ["sandvine.md", "mix_it.md", "ams_ix.md", "ix_br.md"]


def documented_names():
    d = os.path.join(SRC, "traffic_weaver", "datasets", "data_description")
    out = {}
    for t in TABLES:
        names = []
        with open(os.path.join(d, t), encoding="utf-8") as f:
            for line in f:
                m = re.match(r"^\|\s*\d+\s*\|\s*([A-Za-z0-9_\-]+)\s*\|", line)
                if m:
                    names.append(m.group(1))
        out[t] = names
    return out


def all_names():
    names = documented_names()
    return [(t, n) for t in TABLES for n in names[t]]


def payload_for(name):
    h = int(hashlib.sha256(name.encode()).hexdigest()[:8], 16)
    rows = [(float(i), float((h >> (i % 16)) % 97) + 0.5 * i) for i in range(5 + h % 4)]
    return rs.csv_payload(rows)


def check_bundled(name, arr, unpack):
    if unpack:
        if not (isinstance(arr, tuple) and len(arr) == 2):
            raise Violation(f"load_dataset({name!r}, unpack_dataset_columns=True) did not return two columns")
        packed = load_dataset(name)
        if not (np.array_equal(arr[0], packed[:, 0]) and np.array_equal(arr[1], packed[:, 1])):
            raise Violation(f"{name}: unpacked columns differ from the packed array")
        return
    if not isinstance(arr, np.ndarray) or arr.ndim != 2 or arr.shape[1] != 2 or arr.shape[0] < 2:
        raise Violation(f"{name}: not a (samples, 2) array: {getattr(arr, 'shape', type(arr))}")
    if not np.issubdtype(arr.dtype, np.floating) or not np.all(np.isfinite(arr)):
        raise Violation(f"{name}: not a finite float array")
    if not np.all(np.diff(arr[:, 0]) > 0):
        raise Violation(f"{name}: first column not strictly increasing")


def variants(name):
    return [("documented", name), ("underscores", name.replace("-", "_")), ("hyphens", name.replace("_", "-"))]


def names_cases(ctx, shard, nshards):
    idx = 0
    for table, name in all_names():
        for vname, spelled in variants(name):
            for unpack in (False, True):
                if idx % nshards == shard:
                    yield dict(table=table, name=name, variant=vname, spelled=spelled, unpack=unpack)
                idx += 1


def _table_sha(path, sim):
    """checksum table: bytes of payload(URL being fetched) -> pinned checksum of that URL, anything else -> real"""
    import threading
    remote = sim.current_remote.get(threading.get_ident())
    if remote is None:
        return None
    with open(path, "rb") as f:
        data = f.read()
    if data == sim.payloads.get(remote.url):
        return remote.checksum
    return None


def load_remote(spelled, unpack, accept, payload, env):
    """one load through load_dataset with a fake transport; returns (result-or-exception, sim)"""
    def transport(url, path, sim):
        sim.payloads[url] = payload
        rs.write_file(path, payload)
    sim = rs.Sim(transport, sha_override=_table_sha if accept else None)
    sim.payloads = {}
    with sim:
        try:
            out = load_dataset(spelled, unpack_dataset_columns=unpack)
        except Exception as e:  # noqa: BLE001
            out = e
    if accept and isinstance(out, OSError) and sim.calls and not getattr(sim, "sha_consulted", 0):
        # the synthetic payload can only be accepted if the harness's checksum table is consulted; an implementation
        # that verifies in a way the harness does not intercept cannot be judged by this sub-check
        raise rs.Unobservable(f"checksum verification of {spelled!r} did not pass through hashlib.sha256 / hashlib.new / "
                              f"_base._sha256: {out}")
    return out, sim


def names_body(ctx, case):
    name, spelled, unpack = case["name"], case["spelled"], case["unpack"]
    if case["table"] == "sandvine.md":
        if case["variant"] == "hyphens" and spelled != name:
            # the documented spelling of the bundled names uses '_' only; the '-' variant is resolved by the same rule
            pass
        arr = load_dataset(spelled, unpack_dataset_columns=unpack)
        check_bundled(spelled, arr, unpack)
        # "reachable by name": the documented name sandvine_<x> is the shipped file data/sandvine/<x>.csv
        path = os.path.join(SRC, "traffic_weaver", "datasets", "data", "sandvine", name[len("sandvine_"):] + ".csv")
        with open(path) as f:
            rows = [[float(v) for v in line.split(",")] for line in f if line.strip()]
        got = np.column_stack(arr) if unpack else arr
        if got.shape != (len(rows), 2) or not np.array_equal(got, np.array(rows)):
            raise Violation(f"{spelled!r} does not return the content of its shipped file {os.path.basename(path)}")
        # what a caller does with the returned arrays must not leak into later loads of the same name
        for a in (arr if unpack else (arr,)):
            try:
                a[...] = np.nan
            except (ValueError, TypeError):
                pass                          # a read-only result is fine
        again = load_dataset(spelled, unpack_dataset_columns=unpack)
        check_bundled(spelled, again, unpack)
        got2 = np.column_stack(again) if unpack else again
        if got2.shape != (len(rows), 2) or not np.array_equal(got2, np.array(rows)):
            raise Violation(f"{spelled!r}: after the caller overwrote the returned array in place, loading the dataset "
                            f"again no longer returns the shipped data")
        ctx.record(case, ["bundled", "variant:" + case["variant"], f"unpack={unpack}"], True)
        return
    payload = payload_for(name)
    want = rs.parse_payload(payload)
    with rs.scratch_env() as env:
        # 1. real SHA-256: the synthetic payload cannot match the pinned checksum -> refused, nothing cached
        out, sim = load_remote(spelled, unpack, False, payload, env)
        if isinstance(out, ValueError):
            raise Violation(f"documented dataset {spelled!r} is not reachable: {out}")
        if len(sim.calls) != 1:
            raise Violation(f"{spelled!r}: {len(sim.calls)} download attempts for one load, expected exactly 1 "
                            f"(urls {sim.calls})")
        if not isinstance(out, OSError):
            raise Violation(f"{spelled!r}: a payload whose SHA-256 differs from the pinned checksum was not refused "
                            f"with OSError (got {type(out).__name__})")
        cached = [p for p in rs.tree(env.data)]
        if cached:
            raise Violation(f"{spelled!r}: refused payload left files in the cache: {cached}")
        # 2. checksum table: accepted, returned, exactly one cache file under $TRAFFIC_WEAVER_DATA
        out, sim2 = load_remote(spelled, unpack, True, payload, env)
        if isinstance(out, Exception):
            raise Violation(f"{spelled!r}: verified payload not loaded: {type(out).__name__}: {out}")
        got = np.column_stack(out) if unpack else out
        if unpack and not (isinstance(out, tuple) and len(out) == 2):
            raise Violation(f"{spelled!r}: unpack flag did not yield two columns")
        if not (isinstance(got, np.ndarray) and got.shape == want.shape and np.array_equal(got, want)):
            raise Violation(f"{spelled!r}: returned data differs from the downloaded payload")
        files = rs.tree(env.data)
        if len(files) != 1:
            raise Violation(f"{spelled!r}: expected exactly one cache file under TRAFFIC_WEAVER_DATA, found {files}")
        if rs.tree(env.home):
            raise Violation(f"{spelled!r}: files written under the default home although TRAFFIC_WEAVER_DATA is set: "
                            f"{rs.tree(env.home)}")
        if sim.calls != sim2.calls:
            raise Violation(f"{spelled!r}: different URL on the second load")
        # 3. cached: served without network
        # (what the first, downloading request asked for must not shape what later requests get: both flag values)
        for flag in (unpack, not unpack, unpack):
            out3, sim3 = load_remote(spelled, flag, True, payload, env)
            if isinstance(out3, Exception) or sim3.calls:
                raise Violation(f"{spelled!r}: cached dataset not served from the cache ({sim3.calls}, {out3!r})")
            if flag and not (isinstance(out3, tuple) and len(out3) == 2):
                raise Violation(f"{spelled!r} from the cache: unpack flag did not yield two columns")
            got3 = np.column_stack(out3) if flag else out3
            if not (isinstance(got3, np.ndarray) and got3.shape == want.shape and np.array_equal(got3, want)):
                raise Violation(f"{spelled!r}: served from the cache with unpack_dataset_columns={flag} after a first "
                                f"load with unpack_dataset_columns={unpack}: shape "
                                f"{getattr(got3, 'shape', None)} / content differs from the downloaded "
                                f"{want.shape} data")
        if len(rs.tree(env.data)) != 1:
            raise Violation(f"{spelled!r}: cache hits changed the cache files: {rs.tree(env.data)}")
    ctx.record(case, ["remote:" + case["table"], "variant:" + case["variant"], f"unpack={unpack}"], True)


# ---- pairwise distinct metadata ----------------------------------------------------------------------------------------

def metadata_cases(ctx, shard, nshards):
    if shard == 0:
        yield dict(all=True)


def collect_metadata():
    meta = {}
    for table, name in all_names():
        if table == "sandvine.md":
            continue
        payload = payload_for(name)
        with rs.scratch_env() as env:
            out, sim = load_remote(name, False, True, payload, env)
            if isinstance(out, Exception):
                raise Violation(f"{name!r}: not loadable: {type(out).__name__}: {out}")
            files = rs.tree(env.data)
            remote = sim.remotes[0] if sim.remotes else None
            if remote is None or len(files) != 1:
                raise Violation(f"{name!r}: no remote metadata / cache file observed ({files})")
            meta[name] = dict(url=remote.url, checksum=remote.checksum, filename=remote.filename,
                              slot=os.path.normpath(files[0]))
    return meta


def metadata_body(ctx, case):
    meta = collect_metadata()
    for key in ("url", "checksum", "filename", "slot"):
        seen = {}
        for name, m in meta.items():
            if m[key] in seen:
                raise Violation(f"datasets {seen[m[key]]!r} and {name!r} share the same {key}: {m[key]!r}")
            seen[m[key]] = name
    for name, m in meta.items():
        if not re.fullmatch(r"[0-9a-f]{64}", m["checksum"]):
            raise Violation(f"{name!r}: pinned checksum is not a SHA-256 hex digest")
    ctx.count("remote-loaders", len(meta))
    ctx.record(dict(names=len(meta)), ["metadata"], True)
    ctx.record(dict(sample=dict(list(meta.items())[:2])), ["metadata-sample"], True)


# ---- where the cache lives -----------------------------------------------------------------------------------------------

def home_cases(ctx, shard, nshards):
    names = [n for t, n in all_names() if t != "sandvine.md"]
    picks = [names[0], names[len(names) // 3], names[2 * len(names) // 3], names[-1]]
    idx = 0
    for name in picks:
        for style in ("absolute", "relative", "relative-nested", "tilde", "trailing-slash", "decoy-env",
                      "copy-in-default-home", "blanks-in-path", "punctuation-in-path"):
            if idx % nshards == shard:
                yield dict(name=name, style=style)
            idx += 1


def home_body(ctx, case):
    """'the cache lives under the directory named by TRAFFIC_WEAVER_DATA when it is set', however it is spelled"""
    import tempfile
    import shutil
    name = case["name"]
    payload = payload_for(name)
    root = tempfile.mkdtemp(prefix="twv-home-")
    saved = {k: os.environ.get(k) for k in ("TRAFFIC_WEAVER_DATA", "HOME")}
    cwd = os.getcwd()
    try:
        home = os.path.join(root, "home")
        work = os.path.join(root, "work")
        os.makedirs(home)
        os.makedirs(work)
        os.chdir(work)
        os.environ["HOME"] = home
        decoys = {}
        if case["style"] == "decoy-env":
            # other variables that commonly name cache / data / temp directories must not take precedence
            for var in ("XDG_CACHE_HOME", "XDG_DATA_HOME", "XDG_CONFIG_HOME", "TMPDIR", "SCIKIT_LEARN_DATA",
                        "TRAFFIC_WEAVER_HOME", "TRAFFIC_WEAVER_CACHE", "LOCALAPPDATA", "APPDATA"):
                d = os.path.join(root, "decoy-" + var.lower())
                os.makedirs(d)
                decoys[var] = os.environ.get(var)
                os.environ[var] = d
            saved.update(decoys)
        if case["style"] == "copy-in-default-home":
            # the dataset was fetched before, when the variable was not set: it sits in the default location
            os.environ.pop("TRAFFIC_WEAVER_DATA", None)
            first, _ = load_remote(name, False, True, payload, None)
            if isinstance(first, Exception) or not rs.tree(home):
                raise Violation(f"{name!r}: preparatory load into the default location failed: {first!r}")
        value, expect = {
            "decoy-env": (os.path.join(root, "abs-cache"), os.path.join(root, "abs-cache")),
            "copy-in-default-home": (os.path.join(root, "abs-cache"), os.path.join(root, "abs-cache")),
            "absolute": (os.path.join(root, "abs-cache"), os.path.join(root, "abs-cache")),
            "relative": ("rel-cache", os.path.join(work, "rel-cache")),
            "relative-nested": (os.path.join("project-data", "tw"), os.path.join(work, "project-data", "tw")),
            "tilde": (os.path.join("~", "tw-cache"), os.path.join(home, "tw-cache")),
            "trailing-slash": (os.path.join(root, "slash-cache") + os.sep, os.path.join(root, "slash-cache")),
            # the value names a directory: it is not a shell word, a URL or a format string
            "blanks-in-path": (os.path.join(root, "shared cache", "traffic weaver"),
                               os.path.join(root, "shared cache", "traffic weaver")),
            "punctuation-in-path": (os.path.join(root, "daten #1 (tw)", "it's 100% {cache}"),
                                        os.path.join(root, "daten #1 (tw)", "it's 100% {cache}")),
        }[case["style"]]
        os.environ["TRAFFIC_WEAVER_DATA"] = value
        env = None
        before = set(rs.tree(root))
        out, sim = load_remote(name, False, True, payload, env)
        if isinstance(out, Exception):
            raise Violation(f"{name!r} with TRAFFIC_WEAVER_DATA={value!r}: {type(out).__name__}: {out}")
        if len(sim.calls) != 1:
            raise Violation(f"{name!r} is not in the cache under TRAFFIC_WEAVER_DATA={value!r}, yet {len(sim.calls)} "
                            f"downloads were attempted (expected exactly one)")
        inside = rs.tree(expect) if os.path.isdir(expect) else []
        everything = [p for p in rs.tree(root) if p not in before]
        outside = [p for p in everything if not os.path.join(root, p).startswith(expect + os.sep)]
        if len(inside) != 1 or outside:
            raise Violation(f"TRAFFIC_WEAVER_DATA={value!r} (cwd {work}): expected exactly one cache file under {expect}, "
                            f"found {inside} there and {outside} elsewhere")
        got_home = base.get_data_home()
        if os.path.realpath(got_home) != os.path.realpath(expect):
            raise Violation(f"get_data_home() = {got_home!r} for TRAFFIC_WEAVER_DATA={value!r}, expected {expect!r}")
    finally:
        os.chdir(cwd)
        for k, v in saved.items():
            if v is None:
                os.environ.pop(k, None)
            else:
                os.environ[k] = v
        shutil.rmtree(root, ignore_errors=True)
    ctx.record(case, ["home:" + case["style"]], True)


# ---- mixed spellings, unknown names -----------------------------------------------------------------------------------

@st.composite
def spelling_case(draw, ctx):
    names = all_names()
    table, name = names[draw(st.integers(0, len(names) - 1))]
    chars = []
    for ch in name:
        if ch in "-_":
            chars.append(draw(st.sampled_from("-_")))
        else:
            chars.append(ch)
    return dict(table=table, name=name, variant="mixed", spelled="".join(chars), unpack=draw(st.booleans()))


def spelling_body(ctx, case):
    names_body(ctx, case)


@st.composite
def unknown_case(draw, ctx):
    names = [n for _, n in all_names()]
    base_name = names[draw(st.integers(0, len(names) - 1))]
    how = draw(st.sampled_from(["typo", "prefix", "suffix", "empty", "attr", "tail", "tail", "middle"]))
    if how == "typo":
        i = draw(st.integers(0, len(base_name) - 1))
        bad = base_name[:i] + draw(st.sampled_from("xq7")) + base_name[i + 1:]
    elif how == "prefix":
        bad = base_name[:draw(st.integers(1, len(base_name) - 1))]
    elif how == "suffix":
        bad = base_name + draw(st.sampled_from(["s", "_", "-2024", "x"]))
    elif how == "empty":
        bad = ""
    elif how == "attr":
        bad = draw(st.sampled_from(["sandvine_dataset_description", "mix_it_dataset_description", "dataset_description",
                                    "ams_ix_dataset_description", "ix_br_dataset_description", "load_dataset"]))
    elif how in ("tail", "middle"):
        # a documented name with leading (and, for 'middle', also trailing) components cut off at '-' / '_'
        cuts = [i for i, ch in enumerate(base_name) if ch in "-_"]
        if not cuts:
            bad = base_name[1:]
        else:
            a = cuts[draw(st.integers(0, len(cuts) - 1))] + 1
            bad = base_name[a:]
            if how == "middle":
                cuts2 = [i for i, ch in enumerate(bad) if ch in "-_"]
                if cuts2:
                    bad = bad[:cuts2[draw(st.integers(0, len(cuts2) - 1))]]
    elif how == "case":
        bad = base_name.upper()
    else:
        bad = base_name + " "
    return dict(bad=bad, how=how)


def unknown_body(ctx, case):
    bad = case["bad"]
    known = {v for _, n in all_names() for _, v in variants(n)}
    norm = bad.replace("-", "_")
    if norm in {k.replace("-", "_") for k in known}:
        ctx.count("happens-to-be-known")
        return
    with rs.scratch_env():
        def transport(url, path, sim):
            rs.write_file(path, b"0,0\n1,1\n")
        with rs.Sim(transport) as sim:
            try:
                load_dataset(bad)
            except ValueError:
                pass
            except Exception as e:  # noqa: BLE001
                raise Violation(f"load_dataset({bad!r}) raised {type(e).__name__} instead of ValueError: {e}")
            else:
                raise Violation(f"load_dataset({bad!r}) (not a documented name) was accepted")
            if sim.calls:
                raise Violation(f"load_dataset({bad!r}) attempted a download: {sim.calls}")
    ctx.record(case, ["unknown:" + case["how"]], True)


SUBCHECKS = [
    Sub("names", "enum", names_body, cases=names_cases, shards=16, exhaustive=True,
        clause="every documented name (all spellings, both unpack values) loads: bundled well-formed, remote "
               "downloads its own file, refuses a wrong checksum, caches under TRAFFIC_WEAVER_DATA"),
    Sub("metadata", "enum", metadata_body, cases=metadata_cases, shards=1, exhaustive=True,
        clause="no two datasets share a remote file, URL, checksum or cache slot"),
    Sub("data_home", "enum", home_body, cases=home_cases, shards=4, exhaustive=True,
        clause="the cache lives under the directory named by TRAFFIC_WEAVER_DATA (absolute, relative, ~, trailing /)"),
    Sub("spellings", "hyp", spelling_body, strategy=spelling_case, quick=150, thorough=2000,
        clause="mixed '-'/'_' spellings resolve to the same dataset"),
    Sub("unknown", "hyp", unknown_body, strategy=unknown_case, quick=200, thorough=2000,
        clause="unknown names raise ValueError"),
]
