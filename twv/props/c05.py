"""C05 - window strategies never overshoot and keep a plateau at the average."""
import numpy as np
from hypothesis import strategies as st

from twv import gens, rfagen
from twv.runner import Sub, Violation

import traffic_weaver.rfa as rfa_mod

PROPERTY = "C05"
LEVEL = "exploration"
RULE = ("Hypothesis draws a window strategy, a series of 2..60 points (six spacing kinds; value kinds with a "
        "high-mass 'ties' class over an alphabet of <=3 values so that all four tie patterns of the adaptive "
        "strategies occur), n in 2..64, alpha in (0,1] or explicit a in 0..n, beta in [0,1] incl. 0 and 1, "
        "exp in [0.02,4], adaptive_smooth in (0,3]; the output is checked with validity predicates (hull, "
        "prefix/suffix plateau structure, count <= a-1, monotone approach). Non-trivial = some interval whose two "
        "neighbours both differ from it with a >= 3; distinct = distinct input. Regions of the two known findings "
        "are excluded from the clause they break and counted (excluded_known_*).")
ASSUMPTIONS = ["'differs from the average' means |z - y_k| > 1e-12 * max(|y_{k-1}|,|y_k|,|y_{k+1}|) (one-ulp noise of "
               "y0*d/d is not a difference)",
               "monotonicity clause asserted for exp >= 0.14 only (known finding KF-1)",
               "count clause asserted when the adaptive factor (jump ratio ** adaptive_smooth) lies in [2**-30, 2**30] (known finding KF-2)"]
TECHNIQUE = "Hypothesis-generated inputs against validity predicates on the recreated values (no reference model)"
LEVEL_TEXT = ("Randomized exploration with validity predicates that admit every output the statement allows: "
              "bounds by the neighbouring averages, plateau structure and size, monotone approach; exact "
              "reproduction for the piecewise-constant strategy, interpolation for the spline, constants preserved.")
LEVEL_NOTE = "predicates written from the statement; tolerances 1e-12 (window strategies) and 1e-9 (spline)"

KF1_EXP = 0.14


def window_body(ctx, case):
    if case["strategy"] in gens.ADAPTIVE and not gens.jump_ratio_ok(
            case["y"], bound=2.0 ** 300, smooth=case["kw"].get("adaptive_smooth", 1.0)):
        ctx.count("excluded_known_KF3")       # gamma would overflow: the strategy raises (known finding KF-3)
        return
    xs, zs = rfagen.run_rfa(case)
    y = case["y"]
    n = case["n"]
    m = len(y)
    a = gens.effective_a(case["kw"], n)
    exp = case["kw"].get("exp", 2.0)
    monotone_ok = case["strategy"] not in gens.EXP or exp >= KF1_EXP
    if not monotone_ok:
        ctx.count("excluded_known_KF1")
    ratio_ok = case["strategy"] not in gens.ADAPTIVE or gens.jump_ratio_ok(
        y, smooth=case["kw"].get("adaptive_smooth", 1.0))
    if not ratio_ok:
        ctx.count("excluded_known_KF2")
    nontrivial = False
    cls = set(rfagen.classes(case))
    for k in range(m - 1):
        left = y[k - 1] if k > 0 else y[k]
        right = y[k + 1]
        yk = y[k]
        scale = max(abs(left), abs(yk), abs(right))
        thr = 1e-12 * scale
        seg = zs[k * n:(k + 1) * n]
        differs = [abs(float(v) - yk) > thr for v in seg]
        p = 0
        while p < n and differs[p]:
            p += 1
        s = 0
        while s < n - p and differs[n - 1 - s]:
            s += 1
        if any(differs[p:n - s]) and not monotone_ok:
            # KF-1 region: the blend is not monotone, so a transition can dip back under the 1e-12 'differs'
            # threshold in its middle (tiny jump on a large level); the border runs cannot be delimited reliably.
            # Only the hull of the three averages and the count are asserted for this interval.
            lo_a, hi_a = min(left, yk, right) - thr, max(left, yk, right) + thr
            if not all(lo_a <= v <= hi_a for v in seg):
                raise Violation(f"interval {k}: values outside the hull of the neighbouring averages",
                                detail=dict(seg=seg.tolist(), neighbours=[left, yk, right]))
            if ratio_ok and sum(differs) > a - 1:
                raise Violation(f"interval {k}: {sum(differs)} samples differ from the average, more than a-1 = {a - 1}")
            continue
        if any(differs[p:n - s]):
            i = p + differs[p:n - s].index(True)
            raise Violation(f"interval {k}: sample {i} differs from the average {yk!r} but is not adjacent to a border "
                            f"run (prefix {p}, suffix {s}): {float(seg[i])!r}", detail=dict(seg=seg.tolist(), a=a))
        if ratio_ok and p + s > a - 1:
            raise Violation(f"interval {k}: {p + s} samples differ from the average, more than a-1 = {a - 1}",
                            detail=dict(seg=seg.tolist(), neighbours=[left, yk, right], kw=case["kw"]))
        if p + s >= n:
            # only reachable inside the KF-2 region (count clause suspended): no plateau sample is left, so border
            # runs cannot be told apart; every value must still lie between the three averages involved
            lo_a, hi_a = min(left, yk, right) - thr, max(left, yk, right) + thr
            if not all(lo_a <= v <= hi_a for v in seg):
                raise Violation(f"interval {k}: values outside the hull of the neighbouring averages",
                                detail=dict(seg=seg.tolist(), neighbours=[left, yk, right]))
            continue
        lo_l, hi_l = min(left, yk) - thr, max(left, yk) + thr
        for i in range(p):
            if not (lo_l <= seg[i] <= hi_l):
                raise Violation(f"interval {k}: sample {i} = {float(seg[i])!r} outside [{left!r}, {yk!r}] (left neighbour, "
                                f"own average)", detail=dict(seg=seg.tolist()))
        lo_r, hi_r = min(right, yk) - thr, max(right, yk) + thr
        for i in range(n - s, n):
            if not (lo_r <= seg[i] <= hi_r):
                raise Violation(f"interval {k}: sample {i} = {float(seg[i])!r} outside [{yk!r}, {right!r}] (own average, "
                                f"right neighbour)", detail=dict(seg=seg.tolist()))
        if monotone_ok:
            pre = [float(v) for v in seg[:p]] + [yk]
            # the right border value is the first sample of the next interval (the final sample for the last one)
            suf = [yk] + [float(v) for v in seg[n - s:]] + ([float(zs[(k + 1) * n])] if s > 0 else [])
            for name, run in (("prefix", pre), ("suffix", suf)):
                d = np.diff(run)
                if len(d) and not (np.all(d >= -thr) or np.all(d <= thr)):
                    raise Violation(f"interval {k}: {name} does not move monotonically between border and plateau: "
                                    f"{run}", detail=dict(kw=case["kw"]))
        cls.add("tie:" + rfagen.tie_pattern(y, k))
        if left != yk and right != yk and a >= 3:
            nontrivial = True
    last = float(zs[-1])
    thr = 1e-12 * max(abs(y[-1]), abs(y[-2]))
    if not (min(y[-2], y[-1]) - thr <= last <= max(y[-2], y[-1]) + thr):
        raise Violation(f"last sample {last!r} outside [{y[-2]!r}, {y[-1]!r}]")
    ctx.record(case, sorted(cls), nontrivial)


def exact_body(ctx, case):
    """piecewise-constant exact; spline through the points; constants preserved by all strategies"""
    xs, zs = rfagen.run_rfa(case)
    y = np.array(case["y"], dtype=float)
    n = case["n"]
    name = case["strategy"]
    cls = rfagen.classes(case)
    if name == "PiecewiseConstantRFA":
        want = np.append(np.repeat(y[:-1], n), y[-1])
        if not np.array_equal(zs, want):
            i = int(np.where(zs != want)[0][0])
            raise Violation(f"PiecewiseConstantRFA: sample {i} is {zs[i]!r}, average of its interval is {want[i]!r}")
    if name == "CubicSplineRFA":
        scale = float(np.max(np.abs(y))) + 1e-300
        dev = float(np.max(np.abs(zs[::n] - y)))
        if dev > 1e-9 * scale:
            raise Violation(f"CubicSplineRFA misses an original point by {dev:.3g}")
    const = bool(np.all(y == y[0]))
    if const:
        cls.append("constant-input")
        if name == "CubicSplineRFA":
            if float(np.max(np.abs(zs - y[0]))) > 1e-9 * (abs(y[0]) + 1e-300) + 1e-300:
                raise Violation("CubicSplineRFA: constant series not recreated as a constant")
        elif name == "PiecewiseConstantRFA":
            if not np.all(zs == y[0]):
                raise Violation(f"{name}: constant series {y[0]!r} recreated with other values")
        elif float(np.max(np.abs(zs - y[0]))) > 1e-12 * abs(y[0]):
            # t*c + (1-t)*c in the blends is allowed its one-ulp noise
            raise Violation(f"{name}: constant series {y[0]!r} recreated with other values: "
                            f"{sorted(set(zs.tolist()))[:4]}")
    ctx.record(case, cls, name in ("PiecewiseConstantRFA", "CubicSplineRFA") or const)


@st.composite
def exact_case(draw, ctx):
    which = draw(st.sampled_from(["pc", "spline", "const", "const"]))
    if which == "pc":
        return draw(rfagen.rfa_case(ctx, strategies=["PiecewiseConstantRFA"]))
    if which == "spline":
        return draw(rfagen.rfa_case(ctx, strategies=["CubicSplineRFA"], m_lo=3))
    return draw(rfagen.rfa_case(ctx, ykinds=["const"], m_lo=2))


def window_case(ctx):
    return rfagen.rfa_case(ctx, strategies=gens.WINDOW_STRATEGIES,
                           ykinds=["ties", "ties", "int", "dyadic", "smooth", "sign", "offset", "const"])


# ---- known findings ---------------------------------------------------------------------------------------------

def witness_kf1():
    x = np.arange(4.0)
    y = np.array([0.0, 1.0, 0.0, 1.0])
    _, z = rfa_mod.ExpFixedRFA(x, y, 16, beta=0.0, exp=0.05).rfa()
    seg = list(z[16:32])
    pre = seg[:8] + [1.0]
    d = np.diff(pre)
    fails = not (np.all(d >= 0) or np.all(d <= 0))
    return fails, f"ExpFixedRFA(arange(4),[0,1,0,1],16,beta=0,exp=0.05): left transition {np.round(pre, 4).tolist()}"


def witness_kf2():
    x = np.arange(5.0)
    y = np.array([0.0, -1e17, 0.0, 1.0, 5.0])
    _, z = rfa_mod.LinearAdaptiveRFA(x, y, 4, a=4).rfa()
    seg = z[8:12]
    cnt = int(np.sum(seg != 0.0))
    return cnt > 3, f"LinearAdaptiveRFA(arange(5),[0,-1e17,0,1,5],n=4,a=4): {cnt} of 4 samples of interval 2 differ"


def witness_kf3():
    try:
        rfa_mod.LinearAdaptiveRFA(np.arange(3.0), np.array([2.3e-177, 0.0, 1.0]), 2, adaptive_smooth=2.0).rfa()
    except Exception as e:  # noqa: BLE001 - ValueError on the pinned tree; whatever the NaN window turns into elsewhere
        return True, f"LinearAdaptiveRFA(arange(3),[2.3e-177,0,1],2,adaptive_smooth=2) raises {type(e).__name__}: {e}"
    return False, "no longer raises"


WITNESSES = {"KF-1": witness_kf1, "KF-2": witness_kf2, "KF-3": witness_kf3}


SUBCHECKS = [
    Sub("window", "hyp", gens.with_window_candidates(window_body), strategy=window_case, quick=2400, thorough=72000,
        clause="values between own and neighbouring average; <= a-1 border samples differ; monotone approach"),
    Sub("exact", "hyp", exact_body, strategy=exact_case, quick=600, thorough=12000,
        clause="piecewise-constant exact, spline through every point, constant series stays constant"),
]
