"""C04 - recreated series has an exact n-fold grid structure."""
import numpy as np
from hypothesis import strategies as st

from twv import gens, rfagen
from twv.gens import fl
from twv.runner import Sub, Violation

import traffic_weaver.rfa as rfa_mod
from traffic_weaver import Weaver

PROPERTY = "C04"
LEVEL = "exploration"
RULE = ("Hypothesis draws (strategy among the six + FunctionRFA with a generated polynomial supplier, series of "
        "2..60 points with six spacing kinds as int/float arrays or lists, n in 2..64, parameters in the documented "
        "ranges); the result of <Strategy>(...).rfa() and of Weaver.recreate_from_average(...).get() is checked "
        "against the grid predicate. Non-trivial = non-uniform x or non-default parameters; distinct = distinct "
        "input. Rejection: integer n in {1, 0, -1, -3} for every strategy (how a non-integral factor is refused is left open).")
ASSUMPTIONS = ["x strictly increasing; CubicSpline fed gap ratios <= 1e2",
               "equal spacing inside a gap is judged to 4 ulp of max|x| of the gap (np.linspace rounding)"]
TECHNIQUE = "Hypothesis-generated inputs against a structural validity predicate (types, length, every n-th " \
            "abscissa bitwise, equal positive sub-steps), plus follow-up Weaver operations"
LEVEL_TEXT = ("Randomized exploration over strategies x parameters x spacing x container types with an exact "
              "structural predicate; the only float tolerance is the 4-ulp equal-spacing clause.")
LEVEL_NOTE = "trusts numpy for ulp computations; FunctionRFA suppliers restricted to polynomials"


@st.composite
def case_strategy(draw, ctx):
    if draw(st.integers(0, 6)) == 0:
        base = draw(rfagen.rfa_case(ctx, strategies=["PiecewiseConstantRFA"]))
        coef = draw(st.lists(fl(-2.0, 2.0), min_size=1, max_size=3))
        base["strategy"] = "FunctionRFA"
        base["kw"] = {}
        base["poly"] = coef
        # how the user's function treats its argument: numpy-polymorphic polynomial, scalar-only (math module),
        # or a constant that returns a plain float whatever it is given (e.g. "mean level")
        base["fun_kind"] = draw(st.sampled_from(["poly", "scalar-only", "constant", "mean-of-y"]))
        return _history(draw, base)
    return _history(draw, draw(rfagen.rfa_case(ctx)))


def _history(draw, case):
    """what else happens around the call: another strategy object (other n) built in between, and - at the Weaver -
    a same-length re-gridding and / or a refused recreate request before the valid one"""
    if draw(st.integers(0, 2)) == 0:
        n2 = draw(st.integers(2, 12).filter(lambda v: v != case["n"]))
        case["decoy"] = dict(strategy=draw(st.sampled_from(gens.STRATEGY_NAMES)), n=n2)
    case["pre"] = draw(st.sampled_from([[], [], [], ["regrid"], ["refused"], ["regrid", "refused"], ["refused-n"]]))
    return case


def _build(case):
    x, y = rfagen.inputs(case)
    if case["strategy"] == "FunctionRFA":
        coef = case["poly"]
        x0 = float(case["x"][0])

        kind = case.get("fun_kind", "poly")

        def supplier(xx, yy):
            import math
            if kind == "scalar-only":
                return lambda t: coef[0] * math.sin(float(t) - x0) + len(coef)
            if kind == "constant":
                return lambda t: float(coef[0])
            if kind == "mean-of-y":
                m_ = float(np.mean(yy))
                return lambda t: m_
            return lambda t: sum(c * (t - x0) ** i for i, c in enumerate(coef))
        return rfa_mod.FunctionRFA(x, y, case["n"], sampling_function_supplier=supplier), x, y, \
            dict(rfa_class=rfa_mod.FunctionRFA, sampling_function_supplier=supplier)
    cls = rfagen.strategy_class(case["strategy"])
    return cls(x, y, case["n"], **case["kw"]), x, y, dict(rfa_class=cls, **case["kw"])


def grid_predicate(case, xs, what):
    x = np.array(case["x"], dtype=float)
    n = case["n"]
    m = len(x)
    if not np.array_equal(xs[::n], x):
        bad = int(np.where(xs[::n] != x)[0][0])
        raise Violation(f"{what}: abscissa {bad * n} is {xs[bad * n]!r}, original x[{bad}] = {x[bad]!r} (not bit for bit)")
    for k in range(m - 1):
        seg = xs[k * n:(k + 1) * n + 1]
        steps = np.diff(seg)
        if not np.all(steps > 0):
            raise Violation(f"{what}: abscissae not strictly increasing inside gap {k}")
        want = (x[k + 1] - x[k]) / n
        ulp = np.spacing(max(abs(x[k]), abs(x[k + 1])))
        if np.max(np.abs(steps - want)) > 4 * ulp:
            raise Violation(f"{what}: gap {k} not equally spaced: steps {steps.tolist()[:6]}.. expected {want!r}")


def body(ctx, case):
    obj, x, y, wkw = _build(case)
    length = (len(case["x"]) - 1) * case["n"] + 1
    if case.get("decoy"):
        # a second strategy object with another n is created before the first one is evaluated
        d = case["decoy"]
        decoy = rfagen.strategy_class(d["strategy"])(x, y, d["n"])
    xs, ys = rfagen.check_pair(obj.rfa(), length, f"{case['strategy']}.rfa()")
    if case.get("decoy"):
        dl = (len(case["x"]) - 1) * d["n"] + 1
        dx, _ = rfagen.check_pair(decoy.rfa(), dl, f"{d['strategy']}.rfa() (built after another strategy object)")
        grid_predicate(dict(case, n=d["n"]), dx, "rfa() of the second object")
    grid_predicate(case, xs, "rfa()")
    # what the caller does with the returned arrays must not leak into a second call on the same strategy object
    keep_x, keep_y = xs.copy(), ys.copy()
    xs *= 60.0
    ys[:] = 0.0
    xs2, ys2 = rfagen.check_pair(obj.rfa(), length, f"{case['strategy']}.rfa() (second call)")
    if not (np.array_equal(xs2, keep_x) and np.array_equal(ys2, keep_y)):
        raise Violation(f"{case['strategy']}: a second rfa() on the same object, after the first result was modified in "
                        f"place by the caller, returns different arrays")
    xs, ys = keep_x, keep_y
    w = Weaver(x, y).recreate_from_average(case["n"], **wkw)
    wx, wy = rfagen.check_pair(w.get(), length, "Weaver.recreate_from_average().get()")
    if not (np.array_equal(wx, xs) and np.array_equal(wy, ys)):
        raise Violation("Weaver.recreate_from_average differs from the strategy called directly")
    for op, arg in (("scale_y", 2), ("shift_y", 1.0), ("scale_y", 2.0)):
        getattr(w, op)(arg)
        rfagen.check_pair(w.get(), length, f"Weaver after {op}({arg!r})")
    if case.get("pre"):
        weaver_history(case, x, y, wkw)
    cls = rfagen.classes(case)
    for p in case.get("pre") or []:
        cls.append("pre:" + p)
    if case.get("decoy"):
        cls.append("second-object-other-n")
    if case["strategy"] == "FunctionRFA":
        cls.append("fun:" + case.get("fun_kind", "poly"))
    nontrivial = (not gens.is_uniform(case["x"])) or bool(case["kw"]) or case["strategy"] == "FunctionRFA"
    ctx.record(case, cls, nontrivial)


def weaver_history(case, x, y, wkw):
    """The Weaver is not fresh when recreate_from_average is asked for: the series was re-gridded to the same number
    of samples, and / or a recreate request was refused just before.  Judged against the observable series
    (copies of get()) at the moment of the valid request."""
    n = case["n"]
    w = Weaver(x, y)
    if "regrid" in case["pre"] and len(case["x"]) >= 3:
        cx = np.array(case["x"], dtype=float)
        nx = cx.copy()
        nx[1:-1] = cx[1:-1] + 0.25 * (cx[2:] - cx[1:-1])
        w.interpolate(new_x=nx, method="linear")
    if "refused-n" in case["pre"]:
        try:
            w.recreate_from_average(1, **wkw)
        except ValueError:
            pass
        else:
            raise Violation("Weaver.recreate_from_average(n=1) was accepted")
    if "refused" in case["pre"]:
        try:
            w.recreate_from_average(n, rfa_class=rfa_mod.FunctionRFA)      # no sampling function: cannot succeed
        except Exception:  # noqa: BLE001 - how it is refused is not C04's subject; what the next request returns is
            pass
    # (whether a refused request leaves the series untouched is C20's subject: here the next valid request is judged
    # against whatever the Weaver holds now - it must still be two equal-length arrays on the n-fold grid)
    held = w.get()
    if len(held[0]) != len(held[1]):
        raise Violation(f"after a refused recreate_from_average request the Weaver holds {len(held[0])} abscissae and "
                        f"{len(held[1])} values")
    cur_x, cur_y = (np.array(a, dtype=float, copy=True) for a in w.get())
    length = (len(cur_x) - 1) * n + 1
    w.recreate_from_average(n, **wkw)
    what = "recreate_from_average after " + " + ".join(case["pre"])
    wx, wy = rfagen.check_pair(w.get(), length, what)
    grid_predicate(dict(case, x=[float(v) for v in cur_x]), wx, what)
    cls = wkw["rfa_class"]
    kw = {k: v for k, v in wkw.items() if k != "rfa_class"}
    dx, dy = cls(cur_x, cur_y, n, **kw).rfa()
    if not (np.array_equal(wx, dx) and np.allclose(wy, dy, rtol=1e-12, atol=0, equal_nan=False)):
        raise Violation(f"{what}: differs from the strategy applied to the series the Weaver held")


@st.composite
def reject_strategy(draw, ctx):
    base = draw(rfagen.rfa_case(ctx, m_hi=8))
    base["n"] = draw(st.sampled_from([1, 0, -1, -3]))
    return base


def reject_body(ctx, case):
    x, y = rfagen.inputs(case)
    cls = rfagen.strategy_class(case["strategy"])
    for how in ("direct", "weaver"):
        try:
            if how == "direct":
                cls(x, y, case["n"], **case["kw"]).rfa()
            else:
                Weaver(x, y).recreate_from_average(case["n"], rfa_class=cls, **case["kw"])
        except ValueError:
            continue
        except Exception as e:  # noqa: BLE001 - any other exception type is the finding
            raise Violation(f"{case['strategy']} with n={case['n']!r} raised {type(e).__name__} instead of ValueError")
        raise Violation(f"{case['strategy']} accepted n={case['n']!r} ({how})")
    ctx.record(case, ["s:" + case["strategy"], f"n={case['n']}"], True)


SUBCHECKS = [
    Sub("grid", "hyp", body, strategy=case_strategy, quick=1200, thorough=30000,
        clause="(m-1)n+1 samples, two float ndarrays, every n-th abscissa bit for bit, equal positive sub-steps"),
    Sub("reject_small_n", "hyp", reject_body, strategy=reject_strategy, quick=200, thorough=2000,
        clause="an oversampling factor below 2 is rejected with ValueError"),
]
