"""C01 - integral matching reproduces every reference interval integral."""
import math

import numpy as np

from twv import oracles, matchgen
from twv.runner import Sub, Violation

from traffic_weaver.match import integral_matching_reference_stretch
from traffic_weaver import Weaver

PROPERTY = "C01"
LEVEL = "exploration"
RULE = ("Hypothesis builds (x, y, reference, designation mode, rule pair, alpha) by construction: 1..12 (thorough "
        "up to 60) intervals with >=1 interior sample each, optional lead/tail samples, six spacing kinds, seven "
        "value kinds, reference positions on the fixed samples or moved off-grid inside the region where the "
        "requested search (closest/lower/higher, incl. the exact midpoint tie and out-of-range fill) still selects "
        "them, or explicit positions/indices with optional unmatched extra reference points; alpha in [1/16,16]. "
        "Non-trivial = at least one interval whose pre-match integral differs from its target by >1e-6 of the "
        "interval's scale; distinct = distinct full input.")
ASSUMPTIONS = ["fixed points distinct with >=1 interior sample per interval (precondition in the statement)",
               "alpha restricted to [1/16, 16]; tolerance 1e-9*local + 1e-12*global magnitude (DESIGN section 3)"]
TECHNIQUE = ("Hypothesis-generated inputs (constructive generator over spacing x rule pair x exponent x designation "
             "mode) checked against an independent brute-force recomputation of fixed points and of both integrals")
LEVEL_TEXT = ("Randomized exploration with an independent oracle: fixed indices and matched reference points are "
              "re-derived by brute-force search, target and reference integrals re-summed with math.fsum, compared "
              "per interval and in total. Covers the unbounded input space by sampling only.")
LEVEL_NOTE = "trusts twv/oracles.py (rule integrals, nearest search) and the stated float tolerance"


def run_case(case, via_facade=False):
    x, y = case["x"], case["y"]
    kw = matchgen.call_kwargs(case)
    if via_facade:
        xr, yr = np.array(case["x_ref"], dtype=float), np.array(case["y_ref"], dtype=float)
        pre = list(case.get("facade_pre") or (1.0, 1.0)) + [0.0, 0.0]
        cx, cy, sx, sy = pre[:4]
        # the series is constructed in other units / with another origin and converted: the reference follows, the
        # original does not (scales are powers of two; the conversion is used only when it is exact)
        x0, y0 = (xr - sx) / cx, (yr - sy) / cy
        w = None
        if np.all(np.diff(x0) > 0) and np.array_equal(x0 * cx + sx, xr) and np.array_equal(y0 * cy + sy, yr):
            w = Weaver(x0, y0)
            if cx != 1.0:
                w.scale_x(cx)
            if cy != 1.0:
                w.scale_y(cy)
            if sx != 0.0:
                w.shift_x(sx)
            if sy != 0.0:
                w.shift_y(sy)
            rx, ry = w.get_reference()
            if not (np.array_equal(rx, xr) and np.array_equal(ry, yr)):
                w = None                # exactness of the unit conversion is C14's subject, not judged here
        if w is None:
            w = Weaver(xr, yr)
        w.x, w.y = np.array(x, dtype=float), np.array(y, dtype=float)
        out = w.integral_match(**kw).get()
        if not (isinstance(out, tuple) and len(out) == 2):
            raise Violation("Weaver.get() did not return a pair")
        if not np.array_equal(np.asarray(out[0]), np.array(x, dtype=float)):
            raise Violation("Weaver.integral_match changed x")
        return out[1]
    xt = (lambda v: int(v)) if case.get("xint") else float
    yt = (lambda v: int(v)) if case.get("yint") else float
    if case["as_list"]:
        return integral_matching_reference_stretch([xt(v) for v in x], [yt(v) for v in y], list(case["x_ref"]),
                                                   list(case["y_ref"]), **kw)
    return integral_matching_reference_stretch(np.array(x, dtype=np.int64 if case.get("xint") else float),
                                               np.array(y, dtype=np.int64 if case.get("yint") else float),
                                               np.array(case["x_ref"], dtype=float),
                                               np.array(case["y_ref"], dtype=float), **kw)


def check_result_shape(z, n):
    if not isinstance(z, np.ndarray):
        raise Violation(f"result is {type(z).__name__}, not ndarray")
    if z.shape != (n,):
        raise Violation(f"result shape {z.shape}, expected ({n},)")
    if not np.issubdtype(z.dtype, np.floating):
        raise Violation(f"result dtype {z.dtype}")
    if not np.all(np.isfinite(z)):
        raise Violation("result contains non-finite values")


def interval_report(case, z, F, R, gtol=1e-12):
    """per interval: (got, want, tol, pre, scale); gtol = share of the largest interval's scale granted to all"""
    x, y, xr, yr = case["x"], case["y"], case["x_ref"], case["y_ref"]
    zl = [float(v) for v in z]
    ref_el = oracles.rule_integrals(xr, yr, case["rr"])
    alpha = 1.0 if case["alpha"] is None else case["alpha"]
    yhats = matchgen.yhat_estimates(x, y, zl, F, alpha)
    rows = []
    for j in range(len(F) - 1):
        lo, hi = F[j], F[j + 1]
        got = oracles.rule_integral(x, zl, case["tr"], lo, hi)
        pre = oracles.rule_integral(x, y, case["tr"], lo, hi)
        want = math.fsum(ref_el[R[j]:R[j + 1]])
        scale = (oracles.abs_integral(x, zl, lo, hi) + oracles.abs_integral(x, y, lo, hi) + abs(want)
                 + math.fsum(abs(v) for v in ref_el[R[j]:R[j + 1]]))
        # the shared end samples move by the rounding of the neighbours' end weights (DESIGN C03) after this
        # interval has been matched; that changes this interval's integral by at most leak * width
        leak = (matchgen.fixed_point_bound(x, F, yhats, alpha, j)
                + matchgen.fixed_point_bound(x, F, yhats, alpha, j + 1)) * (x[hi] - x[lo])
        rows.append([got, want, scale, pre, leak])
    g = max(r[2] for r in rows)
    return [(got, want, 1e-9 * scale + gtol * g + leak, pre, scale) for got, want, scale, pre, leak in rows]


def body(ctx, case):
    geo = matchgen.expected_geometry(case)
    if geo is None:
        ctx.count("degenerate-construction-skipped")
        return
    F, R = geo
    z = run_case(case)
    check_result_shape(z, len(case["x"]))
    rows = interval_report(case, z, F, R)
    nontrivial = False
    for j, (got, want, tol, pre, scale) in enumerate(rows):
        if abs(got - want) > tol:
            raise Violation(f"interval {j} (samples {F[j]}..{F[j + 1]}): {case['tr']} integral of result {got!r} != "
                            f"{case['rr']} integral of reference {want!r} (tol {tol:.3g})",
                            detail=dict(F=F, R=R, rows=[r[:3] for r in rows]))
        if abs(pre - want) > 1e-6 * scale:
            nontrivial = True
    tot_got = math.fsum(r[0] for r in rows)
    tot_want = math.fsum(r[1] for r in rows)
    if abs(tot_got - tot_want) > sum(r[2] for r in rows):
        raise Violation(f"total between first and last fixed point {tot_got!r} != reference total {tot_want!r}")
    if case.get("facade"):
        # the second observation point: Weaver.integral_match(...).get(), judged by the same independent oracle
        # against the Weaver's current reference (and, to rounding, equal to the direct call)
        z2 = run_case(case, via_facade=True)
        check_result_shape(np.asarray(z2), len(case["x"]))
        for j, (got, want, tol, pre, scale) in enumerate(interval_report(case, z2, F, R)):
            if abs(got - want) > tol:
                raise Violation(f"Weaver.integral_match: interval {j} (samples {F[j]}..{F[j + 1]}): {case['tr']} "
                                f"integral of result {got!r} != {case['rr']} integral of the current reference "
                                f"{want!r} (tol {tol:.3g})", detail=dict(facade_pre=case.get("facade_pre")))
        zs = float(np.max(np.abs(z))) + float(np.max(np.abs(np.asarray(case["y"], dtype=float)))) + 1e-300
        if float(np.max(np.abs(z - z2))) > 1e-9 * zs:
            raise Violation("Weaver.integral_match differs from the direct call on the same inputs",
                            detail=dict(maxdiff=float(np.max(np.abs(z - z2)))))
        ctx.count("facade-compared")
    ctx.record(case, matchgen.classes(case), nontrivial)


class _Quiet:
    """context stand-in for the inner calls of a pair: counters are kept, cases are recorded once per pair"""

    def __init__(self, ctx):
        self.ctx = ctx

    def record(self, *a, **k):
        pass

    def count(self, *a, **k):
        self.ctx.count(*a, **k)


def siblings_body(ctx, case):
    """A, then its sibling B (same sizes and end points, other interior reference positions), then A again: each
    judged by the same independent oracle - a result that depends on an earlier call is wrong for one of them."""
    q = _Quiet(ctx)
    body(q, case["a"])
    body(q, case["b"])
    body(q, case["a"])
    ctx.record(case, matchgen.classes(case["a"]) + ["moved" if case["moved"] else "identical-sibling"], case["moved"])


SUBCHECKS = [
    Sub("small", "hyp", body, strategy=lambda ctx: matchgen.match_case(ctx, big=False), quick=1600, thorough=40000,
        clause="per-interval and total integrals equal the reference's, all modes/rules/alpha, <=12 intervals"),
    Sub("large", "hyp", body, strategy=lambda ctx: matchgen.match_case(ctx, big=True), quick=120, thorough=3200,
        clause="same with 8..60 intervals (up to ~1000 samples)"),
    Sub("siblings", "hyp", siblings_body, strategy=matchgen.sibling_pair, quick=400, thorough=8000,
        clause="the result of one matching does not depend on matchings done before (same sizes and end points, "
               "different interior reference positions)"),
]
