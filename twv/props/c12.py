"""C12 - repeat is a periodic extension with the original spacing."""
import math

import numpy as np
from hypothesis import strategies as st

from twv.runner import Sub, Violation
from twv.gens import fl, series, ys, is_uniform

import traffic_weaver.process as process
from traffic_weaver import Weaver

PROPERTY = "C12"
LEVEL = "exploration"
RULE = ("Hypothesis builds a series of 2..60 samples (uniform: integer / hour / float-step grids; non-uniform: dyadic, "
        "motif, log-uniform gaps, large offset; abscissae as float64, int64 or Python list, values as float or int; a "
        "fifth of the series handed over as strided ndarray views (class container:strided-view: column of a "
        "C-ordered (N,2) table, row of its transpose, every second element of a buffer, x and y alike, and "
        "Weaver.from_2d_array(table) as construction path); "
        "about a third of the series in a narrow dtype - int8/int16/int32/uint8/uint16 abscissae ending just below "
        "the dtype's maximum or spanning its whole range, float32/float16 abscissae on the ulp lattice just below a "
        "power of two or below the dtype's maximum, values int8..uint16/float32/float16 at the dtype's limits - so "
        "that the input is exactly representable but its r-fold extension is not; a sixth on special grids - nearly "
        "uniform (step h, interior points jittered by 1e-7..5e-6 h, first step == last step), nanosecond lattices "
        "(1e-9 / 1e-10 x integers with gaps 1..7), epoch time stamps (1.7e9 + seconds, plain and nearly uniform)) "
        "and r in 1..12 (structure, weaver), r = 1 (identity) or a factor pair (a, b) with a*b <= 24 (composition); "
        "the Weaver is used fresh, after one preparatory step that moves the abscissae (shift_x, scale_x, normalize_x, "
        "truncate_by_index(start > 0), interpolate(n)) and with a working series different from the reference; in "
        "the weaver and history sub-checks a fifth of the objects is constructed as Weaver(None, y) (class "
        "construction:x=None, abscissae 0..len-1, checked); recall: five calls in a "
        "row on the same x (identical input after the caller overwrote the previous result in place, other y, other "
        "r), direct and through fresh Weavers; history: one Weaver, 1..3 repeats (r in 1..5) interleaved with 0..3 "
        "of trend / noise / smooth / scale_y / shift_y / shift_x / scale_x / normalize_x / truncate_by_index / truncate_by_value / "
        "append_one_sample / restore_original / interpolate(n), every repeat judged against the closed form of "
        "copies of get() and get_reference() taken just before it. Non-trivial = "
        "non-uniform spacing and r >= 2 (composition: a >= 2 and b >= 2; identity: non-uniform spacing or integer / "
        "narrow-dtype input, where the float conversion matters), or a narrow-dtype series whose extension leaves "
        "the range or precision of its dtype (recall: r >= 2 and the other y differs; history: a "
        "repeat issued after an earlier repeat and at least one other step); distinct = distinct full input.")
ASSUMPTIONS = [
    "x strictly increasing with >= 2 samples; gaps >= 1e-3 with |x| <= 1.1e6 (twv.gens), narrow-dtype series: gaps >= "
    "2**-24 * max|x| and |x| < 2**32, special grids: gaps >= 1e-10 with |x| < 1e-5, or >= 0.5 with |x| < 1.8e9, "
    "so 256 float64 ulp of the largest repeated abscissa stay far below the smallest gap and below the smallest "
    "generated gap variation; narrow-dtype inputs hold exactly the generated values (checked before the call); the oracle is the closed "
    "form in float64 of those exact values, whatever the input dtype",
    "values and the first copy are compared bit for bit as float64 ('equals the input' as values: an integer result for integer "
    "input would be accepted); gaps inside copies and across junctions are compared with tolerance 256 ulp of "
    "max|x_out| (~5.7e-14 relative; tighter than DESIGN's 1e-12 so that a lost 1e-7 spacing pattern or a lost "
    "sub-millisecond jitter on epoch stamps is visible; worst deviation measured on the pinned tree over 6 000 "
    "generated cases of all grid kinds: 1.75 ulp, also for composed repeats), the composition's abscissae with "
    "1e-12 * max|x_out| (worst measured 4.5e-15)",
    "history: a step other than repeat that raises, or leaves a state that is not a finite strictly increasing "
    "series of >= 2 samples, ends the history silently (counted; other properties own those steps); "
    "integral_match and recreate_from_average are not used as intermediate steps; noise seeds NumPy's global RNG "
    "from a drawn integer",
    "a Weaver whose reference differs from the working series is set up by assigning the public attributes x, y",
]
TECHNIQUE = ("Hypothesis-generated series, repeat counts and factor pairs checked against the closed form of the "
             "periodic extension (tiled values bit for bit, original gap pattern plus last step at every junction); "
             "call sequences and Weaver histories judged step by step against the current state")
LEVEL_TEXT = ("Randomized exploration against a closed-form oracle written from the statement: values and first copy "
              "bit for bit, every gap of every copy and every junction gap within 1e-12 of the scale, strict "
              "monotonicity, identity for r = 1 and composition both code-vs-code and against the closed form for "
              "a*b. Sampling only; lengths <= 60 and r <= 12 (composition a*b <= 24).")
LEVEL_NOTE = "trusts the ~30-line closed form in this module (NumPy diff / concatenate only) and the stated tolerance"

RTOL = 1e-12          # composition: abscissae of repeat(repeat(a), b) against repeat(a*b), relative to max|x_out|
GAP_ULPS = 256        # gaps inside copies / across junctions: multiples of one float64 ulp of max|x_out| (derived below)
# spacing kinds of twv.gens, the non-uniform ones weighted up (the non-trivial rule asks for non-uniform spacing)
XKINDS = ["unit", "unit", "fstep", "hours", "dyadic", "dyadic", "loguni", "loguni", "loguni", "motif", "motif"]
REPEATS = st.one_of(st.integers(2, 12), st.integers(2, 12), st.integers(1, 12))
PAIRS = [(a, b) for a in range(1, 25) for b in range(1, 24 // a + 1)]
PAIRS += [p for p in PAIRS if min(p) >= 2] * 2
INT_DTYPES = ["int8", "int16", "int32", "uint8", "uint16"]
FLOAT_BITS = {"float32": 24, "float16": 11}       # significand bits
NARROW = INT_DTYPES + ["float32", "float32", "float16"]


# ---- oracle -----------------------------------------------------------------------------------------------------

def bits(a):
    return np.ascontiguousarray(a, dtype=np.float64).view(np.uint64)


def first_diff(a, b):
    return int(np.nonzero(np.asarray(a, dtype=np.float64) != np.asarray(b, dtype=np.float64))[0][0])


def as_float_array(name, a, length):
    if not isinstance(a, np.ndarray):
        raise Violation(f"{name} is {type(a).__name__}, not ndarray")
    if a.shape != (length,):
        raise Violation(f"{name} has shape {a.shape}, expected ({length},)")
    # the statement is about values; an integer result for integer input would satisfy it just as well
    if not (np.issubdtype(a.dtype, np.floating) or np.issubdtype(a.dtype, np.integer)):
        raise Violation(f"{name} has dtype {a.dtype}, expected a real numeric dtype")
    if not np.all(np.isfinite(a)):
        raise Violation(f"{name} contains non-finite values")
    return a.astype(np.float64)


def pair(name, res):
    if not (isinstance(res, tuple) and len(res) == 2):
        raise Violation(f"{name}: returned {type(res).__name__}, not an (x, y) pair")
    return res


def check_extension(name, x, y, r, res):
    """`res` is the r-fold periodic extension of (x, y); returns the worst gap deviation relative to the scale."""
    n = len(x)
    xf = np.array([float(v) for v in x], dtype=np.float64)
    yf = np.array([float(v) for v in y], dtype=np.float64)
    res = pair(name, res)
    X = as_float_array(f"{name}: x", res[0], r * n)
    Y = as_float_array(f"{name}: y", res[1], r * n)
    want_y = np.array(yf.tolist() * r, dtype=np.float64)
    # exact values, not bit patterns: -0.0 and 0.0 are the same number (all arrays are finite here)
    if not np.array_equal(Y, want_y):
        k = first_diff(Y, want_y)
        raise Violation(f"{name}: values are not the input tiled {r} times: y[{k}] = {Y[k]!r}, expected {want_y[k]!r} "
                        f"(copy {k // n}, sample {k % n})")
    if not np.array_equal(X[:n], xf):
        k = first_diff(X[:n], xf)
        raise Violation(f"{name}: first copy differs from the input: x[{k}] = {X[k]!r}, input {xf[k]!r}")
    d = np.diff(X)
    if not np.all(d > 0):
        k = int(np.nonzero(~(d > 0))[0][0])
        raise Violation(f"{name}: abscissae not strictly increasing: x[{k}] = {X[k]!r}, x[{k + 1}] = {X[k + 1]!r} "
                        f"({'junction' if (k + 1) % n == 0 else 'inside copy'} {(k + 1) // n})")
    gaps = np.diff(xf)
    period = (xf[-1] - xf[0]) + gaps[-1]
    want_d = np.concatenate([gaps, gaps[-1:]] * r)[:-1]
    scale = max(abs(xf[0]), abs(xf[-1]), abs(xf[0] + (r - 1) * period), abs(xf[-1] + (r - 1) * period))
    # every abscissa of a later copy is one float sum x_i + shift_k, the shift itself a few float operations on
    # earlier abscissae: a gap is off by a few ulp of the largest abscissa at most (measured: <= 2 ulp), whatever
    # the gap's own size.  GAP_ULPS ulp keeps >= 2 decades of head-room and still resolves a spacing pattern whose
    # relative variation is 1e-7 on a grid of 60 x 12 steps, or seconds-jitter of 1e-3 on epoch time stamps.
    tol = GAP_ULPS * math.ulp(scale)
    dev = np.abs(d - want_d)
    if np.any(dev > tol):
        k = int(np.argmax(dev))
        if (k + 1) % n == 0:
            what = f"junction before copy {(k + 1) // n}: step {d[k]!r}, the series' last step is {want_d[k]!r}"
        else:
            what = f"copy {(k + 1) // n}, gap {k % n}: {d[k]!r}, original gap {want_d[k]!r}"
        raise Violation(f"{name}: spacing not reproduced ({what}; tolerance {tol:.3g})")
    return float(np.max(dev) / math.ulp(scale)) if len(dev) else 0.0


def check_same(name, x, y, res):
    """`res` equals (x, y) as float, bit for bit."""
    n = len(x)
    res = pair(name, res)
    X = as_float_array(f"{name}: x", res[0], n)
    Y = as_float_array(f"{name}: y", res[1], n)
    xf = np.array([float(v) for v in x], dtype=np.float64)
    yf = np.array([float(v) for v in y], dtype=np.float64)
    if not np.array_equal(X, xf):
        k = first_diff(X, xf)
        raise Violation(f"{name}: x[{k}] = {X[k]!r}, input {xf[k]!r}")
    if not np.array_equal(Y, yf):
        k = first_diff(Y, yf)
        raise Violation(f"{name}: y[{k}] = {Y[k]!r}, input {yf[k]!r}")


# ---- generators ---------------------------------------------------------------------------------------------------

@st.composite
def narrow_x(draw, dtype):
    """Strictly increasing abscissae exactly representable in `dtype`, placed so that the extension by one more
    period leaves the dtype's range (integers, float16 'max') or its precision (floats: ulp lattice below 2**e)."""
    if dtype in INT_DTYPES:
        info = np.iinfo(dtype)
        lo, hi = int(info.min), int(info.max)
        nmax = 12 if hi < 1000 else 30
        mode = draw(st.sampled_from(["top", "top", "wide", "coordinator"]))
        if mode == "coordinator" and dtype == "int16":
            return "int16-example", [20000, 25000, 30000]
        if mode == "wide":
            # first sample near the minimum, last near the maximum: already the span (signed) or span + step overflows
            inner = draw(st.lists(st.integers(lo + 4, hi - 4), unique=True, min_size=0, max_size=nmax - 2))
            return "wide", [lo + draw(st.integers(0, 3))] + sorted(inner) + [hi - draw(st.integers(0, 3))]
        n = draw(st.integers(2, nmax))
        unit = draw(st.sampled_from([1, 1, 10, 1000, (hi - lo) // (8 * n)]))
        unit = max(1, min(unit, (hi - lo) // (8 * n)))
        gaps = [unit * g for g in draw(st.lists(st.integers(1, 4), min_size=n - 1, max_size=n - 1))]
        period = sum(gaps) + gaps[-1]
        last = hi - draw(st.integers(0, period - 1))            # last + period > hi
        x = [last]
        for g in reversed(gaps):
            x.append(x[-1] - g)
        return "top", x[::-1]
    p = FLOAT_BITS[dtype]
    emax = 24 if dtype == "float32" else 16                      # float16: 2**16 itself overflows (max 65504)
    e = draw(st.one_of(st.just(p), st.just(emax), st.integers(-2 if dtype == "float32" else 2, emax)))
    top, u = 2.0 ** e, 2.0 ** (e - p)                            # u = ulp just below 2**e
    n = draw(st.integers(2, 30))
    gaps = draw(st.lists(st.integers(1, 4), min_size=n - 1, max_size=n - 1))
    m = [draw(st.integers(1, 2))]
    for g in reversed(gaps):
        m.append(m[-1] + g)
    kind = "below-max" if (dtype == "float16" and e == 16) else "unit-steps-below-2^p" if e == p else "below-pow2"
    return kind, [top - k * u for k in m[::-1]]


@st.composite
def narrow_y(draw, dtype, n):
    if dtype in INT_DTYPES:
        info = np.iinfo(dtype)
        lo, hi = int(info.min), int(info.max)
        return draw(st.lists(st.one_of(st.sampled_from([lo, hi, 0]), st.integers(lo, hi)), min_size=n, max_size=n))
    big = 65504.0 if dtype == "float16" else float(np.finfo(np.float32).max)
    return draw(st.lists(st.one_of(st.sampled_from([big, -big, 0.0]), st.integers(-1000, 1000).map(lambda k: k / 8)),
                         min_size=n, max_size=n))


@st.composite
def narrow_series(draw):
    xdt = draw(st.sampled_from(NARROW))
    kind, x = draw(narrow_x(xdt))
    ydt = draw(st.sampled_from([None] + NARROW + NARROW))
    if ydt is None:
        y, ykind = draw(ys(len(x)))["y"], "float64"
    else:
        y, ykind = draw(narrow_y(ydt, len(x))), ydt
    return dict(x=x, y=y, xkind=f"{xdt}:{kind}", ykind=ykind, xint=xdt in INT_DTYPES, as_list=False, xdtype=xdt,
                ydtype=ydt)


@st.composite
def special_series(draw, ctx):
    """Grids on which 'is it evenly spaced?' shortcuts go wrong: nearly uniform, nanosecond scale, epoch offsets."""
    kind = draw(st.sampled_from(["near-uniform", "near-uniform", "tiny", "tiny", "epoch", "epoch-near-uniform"]))
    n = draw(st.integers(5 if "uniform" in kind else 3, ctx.pick(40, 60)))
    if kind in ("near-uniform", "epoch-near-uniform"):
        if kind == "near-uniform":
            h = draw(st.one_of(st.sampled_from([1.0, 60.0, 0.25, 300.0, 3600.0, 5.0]), fl(1e-3, 1e3)))
            x = [(draw(st.integers(-100, 100)) + 0) * h]
            lo, hi = -7.0, -5.3
        else:
            h = draw(st.sampled_from([300.0, 3600.0, 86400.0]))
            x = [1.7e9 + draw(st.integers(0, 10 ** 7))]
            lo, hi = -6.0, -5.3
        x = [x[0] + i * h for i in range(n)]
        # relative jitter on interior points only: the first and the last step stay equal to h
        idx = draw(st.lists(st.integers(2, n - 3), min_size=1, max_size=max(1, n // 3), unique=True))
        for i in idx:
            x[i] += draw(st.sampled_from([-1.0, 1.0])) * 10.0 ** draw(fl(lo, hi)) * h
    elif kind == "tiny":
        u = draw(st.sampled_from([1e-9, 1e-10]))
        k = [draw(st.integers(0, 50))]
        for g in draw(st.lists(st.integers(1, 7), min_size=n - 1, max_size=n - 1)):
            k.append(k[-1] + g)
        x = [u * v for v in k]
    else:
        x = [1.7e9 + draw(st.integers(0, 10 ** 7)) + draw(st.sampled_from([0.0, 0.5, 0.25]))]
        for g in draw(st.lists(st.sampled_from([1.0, 60.0, 300.0, 3600.0, 0.5, 15.0]), min_size=n - 1, max_size=n - 1)):
            x.append(x[-1] + g)
    if not all(b > a for a, b in zip(x[:-1], x[1:])):
        raise RuntimeError(f"special grid not strictly increasing: {x}")
    return dict(x=x, y=draw(ys(n))["y"], xkind=kind, ykind="float64", xint=False, as_list=draw(st.integers(0, 4)) == 0)


CONTAINERS = ["column", "column", "transpose-row", "every-second", "every-second", "from_2d_array", "from_2d_array"]


@st.composite
def base_series(draw, ctx):
    """a series plus the container it is handed over in: list, fresh ndarray, or (mass ~1/5) a strided VIEW - a column
    of a C-ordered (N, 2) table, a row of its transpose (`x, y = data.T`), every second element of a longer buffer,
    or (Weaver-level) the table itself through Weaver.from_2d_array"""
    s = draw(plain_series(ctx))
    if draw(st.integers(0, 4)) == 0:
        s = dict(s, as_list=False, container=draw(st.sampled_from(CONTAINERS)))
    return s


@st.composite
def plain_series(draw, ctx):
    which = draw(st.integers(0, 5))
    if which <= 1:
        return draw(narrow_series())
    if which == 2:
        return draw(special_series(ctx))
    s = draw(series(2, ctx.pick(40, 60), xkinds=XKINDS))
    if s["ykind"] in ("int", "ties") and all(float(v).is_integer() for v in s["y"]) and draw(st.booleans()):
        s = dict(s, y=[int(v) for v in s["y"]], yint=True)
    return s


def narrow_array(values, dtype):
    """ndarray of `dtype` (None: NumPy's default) holding exactly `values`; a generator slip is a harness error."""
    if dtype is None:
        return np.array(values)
    a = np.array(values, dtype=np.float64 if dtype in FLOAT_BITS else object).astype(dtype)
    if [float(v) for v in a.tolist()] != [float(v) for v in values]:
        raise RuntimeError(f"generated values are not representable in {dtype}: {values}")
    return a


def table_of(case, kx="x", ky="y"):
    """C-ordered float64 (N, 2) table [x, y] if both columns are exactly representable in it, else None"""
    x, y = case[kx], case[ky]
    if case.get(kx + "dtype") or case.get(ky + "dtype"):
        return None
    t = np.empty((len(x), 2), dtype=np.float64)
    t[:, 0], t[:, 1] = x, y
    if t[:, 0].tolist() != [float(v) for v in x] or t[:, 1].tolist() != [float(v) for v in y]:
        return None
    return t


def _strided(a, how, col):
    """the same values as the contiguous 1-D array `a`, as a view with a stride of two items"""
    if how == "every-second":
        buf = np.empty(2 * len(a), dtype=a.dtype)
        buf[col::2] = a
        buf[1 - col::2] = a[::-1]          # foreign numbers in between: decreasing, other spacing
        v = buf[col::2]
    else:
        t = np.empty((len(a), 2), dtype=a.dtype)
        t[:, col] = a
        t[:, 1 - col] = a[::-1]
        v = t[:, col] if how != "transpose-row" else t.T[col]
    if v.strides[0] != 2 * a.itemsize or v.tolist() != a.tolist():
        raise RuntimeError("strided view construction failed")
    return v


def inputs(case, kx="x", ky="y"):
    x, y = case[kx], case[ky]
    if case.get("as_list"):
        return list(x), list(y)
    xa, ya = narrow_array(x, case.get(kx + "dtype")), narrow_array(y, case.get(ky + "dtype"))
    how = case.get("container") if kx == "x" else None
    if how:
        t = table_of(case, kx, ky) if how in ("column", "transpose-row", "from_2d_array") else None
        if t is not None:                       # one shared table, as np.loadtxt / load_dataset return it
            return (t[:, 0], t[:, 1]) if how != "transpose-row" else tuple(t.T)
        how = "column" if how == "from_2d_array" else how
        return _strided(xa, how, 0), _strided(ya, how, 1)
    return xa, ya


def index_construction(draw, s):
    """construction class 'x=None' (mass ~1/5): Weaver(None, y), the abscissae are the sample index 0..len-1"""
    if draw(st.integers(0, 4)) != 0:
        return s
    s = dict(s, x=list(range(len(s["x"]))), xkind="index(x=None)", xint=True, x_none=True)
    s.pop("xdtype", None)
    return s


def make_weaver(case):
    xa, ya = inputs(case)
    if not case.get("x_none"):
        if case.get("container") == "from_2d_array" and table_of(case) is not None:
            return Weaver.from_2d_array(table_of(case))
        return Weaver(xa, ya)
    w = Weaver(None, ya)
    got = w.x.tolist() if isinstance(w.x, np.ndarray) else None
    if got != case["x"]:
        raise Violation(f"Weaver(None, y) with {len(case['y'])} values: x is {got!r:.200}, expected 0..{len(case['y']) - 1}")
    return w


PREP_OPS = ["shift_x", "scale_x", "normalize_x", "truncate_index", "interpolate"]


def leaves_dtype(x, dtype, r):
    """does the exact r-fold extension of x (or the shift of its last copy) leave the range / precision of dtype?"""
    if dtype is None or r < 2:
        return set()
    period = (x[-1] - x[0]) + (x[-1] - x[-2])
    top = x[-1] + (r - 1) * period
    out = set()
    if dtype in INT_DTYPES:
        info = np.iinfo(dtype)
        if top > info.max:
            out.add("extension-leaves-dtype")
        if (r - 1) * period > info.max:
            out.add("shift-leaves-dtype")
        return out
    want = np.array([v + k * period for k in range(r) for v in x], dtype=np.float64)
    with np.errstate(all="ignore"):
        back = want.astype(dtype).astype(np.float64)
    if not np.array_equal(back, want):
        out.add("extension-leaves-dtype")
    return out


def series_classes(case, x, r=1, kx="x", ky="y"):
    cls = {"x:" + case.get("xkind", "?"), "uniform" if is_uniform([float(v) for v in x]) else "non-uniform"}
    if case.get(kx + "dtype"):
        cls.add("xdtype:" + case[kx + "dtype"])
        cls.add("narrow-x")
        cls |= leaves_dtype(x, case[kx + "dtype"], r)
    if case.get(ky + "dtype"):
        cls.add("ydtype:" + case[ky + "dtype"])
        cls.add("narrow-y")
    if case.get("x_none"):
        cls.add("construction:x=None")
    if case.get("container") and kx == "x":
        cls.add("container:strided-view")
        shared = case["container"] != "every-second" and table_of(case) is not None
        cls.add("container:" + case["container"] + ("(shared x,y table)" if shared else "(separate buffers)"))
    if case.get("xint"):
        cls.add("int-x")
    if case.get("yint"):
        cls.add("int-y")
    if case.get("as_list"):
        cls.add("list-input")
    if len(x) == 2:
        cls.add("two-samples")
    return cls


def r_class(r):
    return "r=1" if r == 1 else "r=2" if r == 2 else "r=3..6" if r <= 6 else "r=7..12" if r <= 12 else "r=13..24"


# ---- structure of process.repeat ---------------------------------------------------------------------------------

@st.composite
def structure_case(draw, ctx):
    return dict(draw(base_series(ctx)), r=draw(REPEATS), kw=draw(st.booleans()))


def structure_body(ctx, case):
    x, y, r = case["x"], case["y"], case["r"]
    xa, ya = inputs(case)
    res = process.repeat(xa, ya, repeats=r) if case["kw"] else process.repeat(xa, ya, r)
    check_extension(f"repeat(x, y, {r})", x, y, r, res)
    cls = series_classes(case, x, r) | {r_class(r)}
    ctx.record(case, cls, ("non-uniform" in cls and r >= 2) or "extension-leaves-dtype" in cls)


# ---- identity ------------------------------------------------------------------------------------------------------

@st.composite
def identity_case(draw, ctx):
    return dict(draw(base_series(ctx)), facade=draw(st.booleans()))


def identity_body(ctx, case):
    x, y = case["x"], case["y"]
    xa, ya = inputs(case)
    cls = series_classes(case, x)
    if case["facade"]:
        w = make_weaver(case)
        w.repeat(1)
        check_same("Weaver.repeat(1).get()", x, y, w.get())
        check_same("Weaver.repeat(1).get_reference()", x, y, w.get_reference())
        cls.add("via-Weaver")
    else:
        check_same("repeat(x, y, 1)", x, y, process.repeat(xa, ya, 1))
        cls.add("direct")
    ctx.record(case, cls, bool(cls & {"non-uniform", "int-x", "int-y", "narrow-x", "narrow-y"}))


# ---- composition -----------------------------------------------------------------------------------------------------

@st.composite
def composition_case(draw, ctx):
    a, b = draw(st.sampled_from(PAIRS))
    return dict(draw(base_series(ctx)), a=a, b=b, facade=draw(st.booleans()))


def composition_body(ctx, case):
    x, y, a, b = case["x"], case["y"], case["a"], case["b"]
    n = len(x)
    xa, ya = inputs(case)
    cls = series_classes(case, x, a * b) | {r_class(a * b), "a=1" if a == 1 else "b=1" if b == 1 else "a,b>=2"}
    if case["facade"]:
        w2, w3 = make_weaver(case), make_weaver(case)
        w2.repeat(a)
        w2.repeat(b)
        w3.repeat(a * b)
        pairs = [("Weaver.repeat(a).repeat(b).get()", w2.get(), w3.get()),
                 ("Weaver.repeat(a).repeat(b).get_reference()", w2.get_reference(), w3.get_reference())]
        cls.add("via-Weaver")
    else:
        step1 = pair("repeat(x, y, a)", process.repeat(xa, ya, a))
        as_float_array("repeat(x, y, a): x", step1[0], a * n)
        as_float_array("repeat(x, y, a): y", step1[1], a * n)
        pairs = [("repeat(repeat(x, y, a), b)", process.repeat(step1[0], step1[1], b), process.repeat(xa, ya, a * b))]
        cls.add("direct")
    for name, two, one in pairs:
        name = f"{name} with a={a}, b={b}"
        # against the closed form for a*b ...
        check_extension(name, x, y, a * b, two)
        # ... and against the single call, as the statement puts it
        X2, Y2 = (as_float_array(f"{name}: {k}", v, a * b * n) for k, v in zip("xy", two))
        one = pair("repeat a*b", one)
        X3, Y3 = (as_float_array(f"repeat a*b: {k}", v, a * b * n) for k, v in zip("xy", one))
        if not np.array_equal(Y2, Y3):
            k = first_diff(Y2, Y3)
            raise Violation(f"{name}: y[{k}] = {Y2[k]!r} but repeating {a * b} times gives {Y3[k]!r}")
        scale = float(np.max(np.abs(X3)))
        dev = np.abs(X2 - X3)
        if np.any(dev > RTOL * scale):
            k = int(np.argmax(dev))
            raise Violation(f"{name}: x[{k}] = {X2[k]!r} but repeating {a * b} times gives {X3[k]!r}")
    ctx.record(case, cls, ("non-uniform" in cls or "extension-leaves-dtype" in cls) and a >= 2 and b >= 2)


# ---- Weaver.repeat: working series and reference -------------------------------------------------------------------------

@st.composite
def weaver_case(draw, ctx):
    s = index_construction(draw, draw(base_series(ctx)))
    case = dict(s, r=draw(REPEATS), xw=None, yw=None, prep=None)
    how = draw(st.integers(0, 5))
    if how >= 3:
        o = draw(base_series(ctx))
        case.update(xw=o["x"], yw=o["y"], wkind=o["xkind"], xwdtype=o.get("xdtype"), ywdtype=o.get("ydtype"))
    elif how >= 1 and not s.get("xdtype"):
        # one preparatory step that moves the abscissae; repeat is then judged against the state it finds
        op = dict(op=draw(st.sampled_from(PREP_OPS)))
        if op["op"] == "shift_x":
            op.update(v=draw(st.one_of(st.sampled_from([1.0, -2.5, 100.0, 0.5]), fl(-100.0, 100.0))))
        elif op["op"] == "scale_x":
            op.update(v=draw(st.one_of(st.sampled_from([2.0, 0.5, 0.25, 3.0]), fl(0.1, 10.0))))
        elif op["op"] == "normalize_x":
            lo = draw(st.one_of(st.sampled_from([0.0, -1.0, 5.0]), fl(-10.0, 10.0)))
            op.update(lo=lo, hi=lo + draw(st.one_of(st.sampled_from([1.0, 24.0]), fl(0.5, 100.0))))
        elif op["op"] == "truncate_index":
            op.update(i=draw(st.integers(0, 10 ** 4)), j=draw(st.integers(0, 10 ** 4)), from_one=True)
        else:
            op.update(n=draw(st.integers(2, 40)), method="linear")
        case["prep"] = op
    return case


def weaver_body(ctx, case):
    x, y, r = case["x"], case["y"], case["r"]
    w = make_weaver(case)
    cls = series_classes(case, x, r) | {r_class(r)}
    xw, yw = x, y
    if case.get("prep"):
        try:
            with np.errstate(all="ignore"):
                applied = _apply(w, case["prep"], ctx)
        except Exception as e:       # not this property's business
            ctx.count(f"setup-step-failed:{case['prep']['op']}:{type(e).__name__}")
            return
        cur, ref = _snapshot("get()", w.get()), _snapshot("get_reference()", w.get_reference())
        if not applied or cur is None or ref is None:
            ctx.count("prepared-state-not-a-valid-series")
            return
        cls |= {"prepared:" + case["prep"]["op"], "prepared"}
        w.repeat(r)
        check_extension(f"Weaver.repeat({r}).get() after {case['prep']['op']}", cur[0], cur[1], r, w.get())
        check_extension(f"Weaver.repeat({r}).get_reference() after {case['prep']['op']}", ref[0], ref[1], r,
                        w.get_reference())
        ctx.record(case, cls, r >= 2 or bool(case.get("x_none")))
        return
    if case["xw"] is not None:
        xw, yw = case["xw"], case["yw"]
        w.x, w.y = narrow_array(xw, case.get("xwdtype")), narrow_array(yw, case.get("ywdtype"))
        if case.get("xwdtype"):
            cls.add("working-xdtype:" + case["xwdtype"])
            cls |= {"working-" + c for c in leaves_dtype(xw, case["xwdtype"], r)}
        cls.add("working-differs-from-reference")
        cls.add("working:" + ("uniform" if is_uniform([float(v) for v in xw]) else "non-uniform"))
        if len(xw) != len(x):
            cls.add("working-length-differs")
    else:
        cls.add("fresh")
    w.repeat(r)
    check_extension(f"Weaver.repeat({r}).get()", xw, yw, r, w.get())
    check_extension(f"Weaver.repeat({r}).get_reference()", x, y, r, w.get_reference())
    ctx.record(case, cls, (("non-uniform" in cls or "working:non-uniform" in cls) and r >= 2)
               or "extension-leaves-dtype" in cls or "working-extension-leaves-dtype" in cls
               or ("construction:x=None" in cls and "working-differs-from-reference" in cls))


# ---- repeated calls in one process: results are fresh arrays, nothing is remembered between calls -------------------------

@st.composite
def recall_case(draw, ctx):
    s = draw(base_series(ctx))
    n = len(s["x"])
    r = draw(REPEATS)
    other = draw(narrow_y(s["ydtype"], n)) if s.get("ydtype") else draw(ys(n))["y"]
    return dict(s, r=r, r2=draw(st.integers(1, 12)), y2=other, facade=draw(st.booleans()),
                scribble=draw(st.sampled_from(["shift-to-zero", "negate", "zero-fill"])))


def _scribble(res, how):
    """what a caller may do with arrays it was handed"""
    for a in res:
        if not isinstance(a, np.ndarray) or not a.flags.writeable:
            continue
        if how == "shift-to-zero":
            a -= a[0]
        elif how == "negate":
            np.negative(a, out=a)
        else:
            a[...] = 0


def recall_body(ctx, case):
    x, y, r, r2, y2 = case["x"], case["y"], case["r"], case["r2"], case["y2"]
    cls = series_classes(case, x, r) | {r_class(r), "scribble:" + case["scribble"]}

    def call(yy, rr, tag):
        xa, ya = inputs(dict(case, y=yy))
        if case["facade"]:
            w = make_weaver(dict(case, y=yy))
            w.repeat(rr)
            res, ref = w.get(), w.get_reference()
            check_extension(f"{tag}: Weaver.repeat({rr}).get()", x, yy, rr, res)
            check_extension(f"{tag}: Weaver.repeat({rr}).get_reference()", x, yy, rr, ref)
            _scribble(pair(tag, res), case["scribble"])
            _scribble(pair(tag, ref), case["scribble"])
        else:
            res = process.repeat(xa, ya, rr)
            check_extension(f"{tag}: repeat(x, y, {rr})", x, yy, rr, res)
            _scribble(pair(tag, res), case["scribble"])

    call(y, r, "first call")
    call(y, r, "second call with bit-identical input, after the caller modified the first result in place")
    call(y2, r, "third call, same x and other y")
    call(y, r2, f"fourth call, same x and y, r={r2} instead of {r}")
    call(y, r, "fifth call, first input again")
    cls.add("via-Weaver" if case["facade"] else "direct")
    cls.add("other-y-equal" if y2 == y else "other-y-differs")
    cls.add("r2==r" if r2 == r else "r2!=r")
    ctx.record(case, cls, r >= 2 and y2 != y)


# ---- Weaver history: every repeat extends the series as it is NOW -----------------------------------------------------------

HIST_OPS = ["trend", "trend", "noise", "smooth", "scale_y", "shift_y", "truncate_index", "truncate_index",
            "truncate_value", "append", "append", "restore", "interpolate", "shift_x", "scale_x", "normalize_x"]


@st.composite
def hist_op(draw):
    op = draw(st.sampled_from(HIST_OPS))
    d = dict(op=op)
    if op == "trend":
        d.update(a=draw(st.one_of(st.sampled_from([1.0, -0.5, 0.125]), fl(-3.0, 3.0))), normalized=draw(st.booleans()))
    elif op == "noise":
        d.update(snr=draw(st.sampled_from([10.0, 20.0, 3.0])), seed=draw(st.integers(0, 2 ** 31 - 1)))
    elif op == "smooth":
        d.update(frac=draw(st.sampled_from([0.0, 0.1, 0.5, 1.0])))
    elif op in ("scale_y", "shift_y", "shift_x"):
        d.update(v=draw(st.one_of(st.sampled_from([2.0, 0.5, -1.0, 10.0]), fl(0.1, 10.0))))
    elif op == "scale_x":
        d.update(v=draw(st.one_of(st.sampled_from([2.0, 0.5, 0.25, 3.0]), fl(0.1, 10.0))))
    elif op == "normalize_x":
        lo = draw(st.one_of(st.sampled_from([0.0, -1.0, 5.0]), fl(-10.0, 10.0)))
        d.update(lo=lo, hi=lo + draw(st.one_of(st.sampled_from([1.0, 24.0]), fl(0.5, 100.0))))
    elif op in ("truncate_index", "truncate_value"):
        d.update(i=draw(st.integers(0, 10 ** 4)), j=draw(st.integers(0, 10 ** 4)))
    elif op == "append":
        d.update(periodic=draw(st.booleans()))
    elif op == "interpolate":
        d.update(n=draw(st.integers(2, 40)), method=draw(st.sampled_from(["linear", "constant"])))
    return d


@st.composite
def history_case(draw, ctx):
    s = draw(base_series(ctx))
    if len(s["x"]) > 30:
        s = dict(s, x=s["x"][:30], y=s["y"][:30])
    s = index_construction(draw, s)
    prog = []
    for k in range(draw(st.integers(1, 3))):
        prog += draw(st.lists(hist_op(), min_size=0 if k == 0 else 1, max_size=ctx.pick(2, 3)))
        prog.append(dict(op="repeat", r=draw(st.sampled_from([1, 2, 2, 3, 3, 4, 5]))))
    return dict(s, prog=prog)


def _snapshot(name, res):
    """(x list, y list) of a Weaver series if it is a series the statement speaks about, else None"""
    if not (isinstance(res, tuple) and len(res) == 2):
        return None
    out = []
    for a in res:
        if not isinstance(a, np.ndarray) or a.ndim != 1 or a.dtype.kind not in "iuf":
            return None
        out.append(a.tolist())
    x, y = out
    if len(x) < 2 or len(x) != len(y) or not all(math.isfinite(v) for v in x + y):
        return None
    if not all(b > a for a, b in zip(x[:-1], x[1:])):
        return None
    return x, y


def _apply(w, op, ctx):
    """one non-repeat step of a history; False if it does not apply to the current state"""
    name, n = op["op"], len(w.x)
    m = min(n, len(w.reference_x))
    if name == "trend":
        a = op["a"]
        w.trend(lambda t: a * t, normalized=op["normalized"])
    elif name == "noise":
        np.random.seed(op["seed"])
        w.noise(op["snr"])
    elif name == "smooth":
        if n < 5:
            return False
        w.smooth(op["frac"] * n * float(np.std(w.y)) ** 2)
    elif name == "scale_y":
        w.scale_y(op["v"])
    elif name == "shift_y":
        w.shift_y(op["v"])
    elif name == "shift_x":
        w.shift_x(op["v"])
    elif name == "scale_x":
        w.scale_x(op["v"])
    elif name == "normalize_x":
        w.normalize_x(op["lo"], op["hi"])
    elif name == "truncate_index":
        if m < 3:
            return False
        i = op["i"] % (m - 1)
        if op.get("from_one"):
            i = 1 + op["i"] % (m - 2)
        j = i + 2 + op["j"] % (m - i - 1)
        w.truncate_by_index(i, j)
    elif name == "truncate_value":
        if n < 3:
            return False
        i = op["i"] % (n - 1)
        j = i + 1 + op["j"] % (n - i - 1)
        w.truncate_by_value(w.x[i].item(), w.x[j].item())
    elif name == "append":
        w.append_one_sample(make_periodic=op["periodic"])
    elif name == "restore":
        w.restore_original()
    elif name == "interpolate":
        w.interpolate(n=op["n"], method=op["method"])
    return True


def history_body(ctx, case):
    w = make_weaver(case)
    cls = series_classes(case, case["x"])
    judged, since_repeat, total = 0, [], 1
    for op in case["prog"]:
        if op["op"] != "repeat":
            try:
                with np.errstate(all="ignore"):
                    applied = _apply(w, op, ctx)
            except Exception as e:       # not this property's business: the history ends here
                ctx.count(f"setup-step-failed:{op['op']}:{type(e).__name__}")
                break
            if applied:
                since_repeat.append(op["op"])
            continue
        r = op["r"]
        cur, ref = _snapshot("get()", w.get()), _snapshot("get_reference()", w.get_reference())
        if cur is None or ref is None or max(len(cur[0]), len(ref[0])) * r > 3000:
            ctx.count("history-ended:state-not-a-valid-series" if cur is None or ref is None else "history-ended:too-long")
            break
        where = f"history step repeat({r}) after {since_repeat if judged else 'construction + ' + str(since_repeat)}"
        w.repeat(r)
        check_extension(f"{where}: get()", cur[0], cur[1], r, w.get())
        check_extension(f"{where}: get_reference()", ref[0], ref[1], r, w.get_reference())
        if judged:
            cls.add("repeat-after-repeat" if not since_repeat else "repeat-after-repeat-and-other-steps")
            cls |= {"between:" + o for o in since_repeat}
            if len(cur[0]) != len(ref[0]):
                cls.add("lengths-differ")
        judged += 1
        total *= r
        since_repeat = []
    cls.add(f"repeats-judged:{judged}")
    ctx.record(case, cls, "repeat-after-repeat-and-other-steps" in cls and total >= 2)


SUBCHECKS = [
    Sub("structure", "hyp", structure_body, strategy=structure_case, quick=500, thorough=10000,
        clause="r*len samples, values tiled, first copy = input, strictly increasing, original gaps in every copy, "
               "last step across every junction"),
    Sub("identity", "hyp", identity_body, strategy=identity_case, quick=500, thorough=10000,
        clause="repeating once is the identity (direct and through the Weaver)"),
    Sub("composition", "hyp", composition_body, strategy=composition_case, quick=500, thorough=10000,
        clause="repeat a times then b times equals repeat a*b times"),
    Sub("weaver", "hyp", weaver_body, strategy=weaver_case, quick=500, thorough=10000,
        clause="Weaver.repeat extends the working series and the reference alike"),
    Sub("recall", "hyp", recall_body, strategy=recall_case, quick=150, thorough=3000,
        clause="same statement for every call of a sequence in one process (same x again after the caller modified "
               "the returned arrays, same x with other y, same x with other r): nothing is remembered or shared"),
    Sub("history", "hyp", history_body, strategy=history_case, quick=200, thorough=4000,
        clause="each of 1..3 Weaver.repeat calls, interleaved with other operations, extends the series as it is at "
               "that moment (working series and reference)"),
]
