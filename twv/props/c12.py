"""C12 - repeat is a periodic extension with the original spacing."""
import numpy as np
from hypothesis import strategies as st

from twv.runner import Sub, Violation
from twv.gens import series, ys, is_uniform

import traffic_weaver.process as process
from traffic_weaver import Weaver

PROPERTY = "C12"
LEVEL = "exploration"
RULE = ("Hypothesis builds a series of 2..60 samples (uniform: integer / hour / float-step grids; non-uniform: dyadic, "
        "motif, log-uniform gaps, large offset; abscissae as float64, int64 or Python list, values as float or int; "
        "about a third of the series in a narrow dtype - int8/int16/int32/uint8/uint16 abscissae ending just below "
        "the dtype's maximum or spanning its whole range, float32/float16 abscissae on the ulp lattice just below a "
        "power of two or below the dtype's maximum, values int8..uint16/float32/float16 at the dtype's limits - so "
        "that the input is exactly representable but its r-fold extension is not) "
        "and r in 1..12 (structure, weaver), r = 1 (identity) or a factor pair (a, b) with a*b <= 24 (composition); "
        "the Weaver is used fresh and with a working series different from the reference. Non-trivial = "
        "non-uniform spacing and r >= 2 (composition: a >= 2 and b >= 2; identity: non-uniform spacing or integer / "
        "narrow-dtype input, where the float conversion matters), or a narrow-dtype series whose extension leaves "
        "the range or precision of its dtype; distinct = distinct full input.")
ASSUMPTIONS = [
    "x strictly increasing with >= 2 samples, gaps >= 1e-3 and |x| <= 1.1e6 (twv.gens), narrow-dtype series: gaps >= "
    "2**-24 * max|x| and |x| < 2**32, so one float64 ulp of the largest repeated abscissa is far below the smallest "
    "gap; narrow-dtype inputs hold exactly the generated values (checked before the call); the oracle is the closed "
    "form in float64 of those exact values, whatever the input dtype",
    "values and the first copy are compared bit for bit as float64 ('equals the input' as values: an integer result for integer "
    "input would be accepted); gaps inside copies and across junctions and the composition's abscissae are compared with "
    "tolerance 1e-12 * max|x_out| (worst deviations measured on the pinned tree over 4 000 generated cases: gaps "
    "2.2e-16, composition 4.5e-15 of that scale)",
    "a Weaver whose reference differs from the working series is set up by assigning the public attributes x, y",
]
TECHNIQUE = ("Hypothesis-generated series, repeat counts and factor pairs checked against the closed form of the "
             "periodic extension (tiled values bit for bit, original gap pattern plus last step at every junction)")
LEVEL_TEXT = ("Randomized exploration against a closed-form oracle written from the statement: values and first copy "
              "bit for bit, every gap of every copy and every junction gap within 1e-12 of the scale, strict "
              "monotonicity, identity for r = 1 and composition both code-vs-code and against the closed form for "
              "a*b. Sampling only; lengths <= 60 and r <= 12 (composition a*b <= 24).")
LEVEL_NOTE = "trusts the ~30-line closed form in this module (NumPy diff / concatenate only) and the stated tolerance"

RTOL = 1e-12
# spacing kinds of twv.gens, the non-uniform ones weighted up (the non-trivial rule asks for non-uniform spacing)
XKINDS = ["unit", "unit", "fstep", "hours", "dyadic", "dyadic", "loguni", "loguni", "loguni", "motif", "motif"]
REPEATS = st.one_of(st.integers(2, 12), st.integers(2, 12), st.integers(1, 12))
PAIRS = [(a, b) for a in range(1, 25) for b in range(1, 24 // a + 1)]
PAIRS += [p for p in PAIRS if min(p) >= 2] * 2
INT_DTYPES = ["int8", "int16", "int32", "uint8", "uint16"]
FLOAT_BITS = {"float32": 24, "float16": 11}       # significand bits
NARROW = INT_DTYPES + ["float32", "float32", "float16"]


# ---- oracle -----------------------------------------------------------------------------------------------------

def bits(a):
    return np.ascontiguousarray(a, dtype=np.float64).view(np.uint64)


def first_diff(a, b):
    return int(np.nonzero(bits(a) != bits(b))[0][0])


def as_float_array(name, a, length):
    if not isinstance(a, np.ndarray):
        raise Violation(f"{name} is {type(a).__name__}, not ndarray")
    if a.shape != (length,):
        raise Violation(f"{name} has shape {a.shape}, expected ({length},)")
    # the statement is about values; an integer result for integer input would satisfy it just as well
    if not (np.issubdtype(a.dtype, np.floating) or np.issubdtype(a.dtype, np.integer)):
        raise Violation(f"{name} has dtype {a.dtype}, expected a real numeric dtype")
    if not np.all(np.isfinite(a)):
        raise Violation(f"{name} contains non-finite values")
    return a.astype(np.float64)


def pair(name, res):
    if not (isinstance(res, tuple) and len(res) == 2):
        raise Violation(f"{name}: returned {type(res).__name__}, not an (x, y) pair")
    return res


def check_extension(name, x, y, r, res):
    """`res` is the r-fold periodic extension of (x, y); returns the worst gap deviation relative to the scale."""
    n = len(x)
    xf = np.array([float(v) for v in x], dtype=np.float64)
    yf = np.array([float(v) for v in y], dtype=np.float64)
    res = pair(name, res)
    X = as_float_array(f"{name}: x", res[0], r * n)
    Y = as_float_array(f"{name}: y", res[1], r * n)
    want_y = np.array(yf.tolist() * r, dtype=np.float64)
    if not np.array_equal(bits(Y), bits(want_y)):
        k = first_diff(Y, want_y)
        raise Violation(f"{name}: values are not the input tiled {r} times: y[{k}] = {Y[k]!r}, expected {want_y[k]!r} "
                        f"(copy {k // n}, sample {k % n})")
    if not np.array_equal(bits(X[:n]), bits(xf)):
        k = first_diff(X[:n], xf)
        raise Violation(f"{name}: first copy differs from the input: x[{k}] = {X[k]!r}, input {xf[k]!r}")
    d = np.diff(X)
    if not np.all(d > 0):
        k = int(np.nonzero(~(d > 0))[0][0])
        raise Violation(f"{name}: abscissae not strictly increasing: x[{k}] = {X[k]!r}, x[{k + 1}] = {X[k + 1]!r} "
                        f"({'junction' if (k + 1) % n == 0 else 'inside copy'} {(k + 1) // n})")
    gaps = np.diff(xf)
    period = (xf[-1] - xf[0]) + gaps[-1]
    want_d = np.concatenate([gaps, gaps[-1:]] * r)[:-1]
    scale = max(abs(xf[0]), abs(xf[-1]), abs(xf[0] + (r - 1) * period), abs(xf[-1] + (r - 1) * period))
    dev = np.abs(d - want_d)
    if np.any(dev > RTOL * scale):
        k = int(np.argmax(dev))
        if (k + 1) % n == 0:
            what = f"junction before copy {(k + 1) // n}: step {d[k]!r}, the series' last step is {want_d[k]!r}"
        else:
            what = f"copy {(k + 1) // n}, gap {k % n}: {d[k]!r}, original gap {want_d[k]!r}"
        raise Violation(f"{name}: spacing not reproduced ({what}; tolerance {RTOL * scale:.3g})")
    return float(np.max(dev) / scale) if len(dev) else 0.0


def check_same(name, x, y, res):
    """`res` equals (x, y) as float, bit for bit."""
    n = len(x)
    res = pair(name, res)
    X = as_float_array(f"{name}: x", res[0], n)
    Y = as_float_array(f"{name}: y", res[1], n)
    xf = np.array([float(v) for v in x], dtype=np.float64)
    yf = np.array([float(v) for v in y], dtype=np.float64)
    if not np.array_equal(bits(X), bits(xf)):
        k = first_diff(X, xf)
        raise Violation(f"{name}: x[{k}] = {X[k]!r}, input {xf[k]!r}")
    if not np.array_equal(bits(Y), bits(yf)):
        k = first_diff(Y, yf)
        raise Violation(f"{name}: y[{k}] = {Y[k]!r}, input {yf[k]!r}")


# ---- generators ---------------------------------------------------------------------------------------------------

@st.composite
def narrow_x(draw, dtype):
    """Strictly increasing abscissae exactly representable in `dtype`, placed so that the extension by one more
    period leaves the dtype's range (integers, float16 'max') or its precision (floats: ulp lattice below 2**e)."""
    if dtype in INT_DTYPES:
        info = np.iinfo(dtype)
        lo, hi = int(info.min), int(info.max)
        nmax = 12 if hi < 1000 else 30
        mode = draw(st.sampled_from(["top", "top", "wide", "coordinator"]))
        if mode == "coordinator" and dtype == "int16":
            return "int16-example", [20000, 25000, 30000]
        if mode == "wide":
            # first sample near the minimum, last near the maximum: already the span (signed) or span + step overflows
            inner = draw(st.lists(st.integers(lo + 4, hi - 4), unique=True, min_size=0, max_size=nmax - 2))
            return "wide", [lo + draw(st.integers(0, 3))] + sorted(inner) + [hi - draw(st.integers(0, 3))]
        n = draw(st.integers(2, nmax))
        unit = draw(st.sampled_from([1, 1, 10, 1000, (hi - lo) // (8 * n)]))
        unit = max(1, min(unit, (hi - lo) // (8 * n)))
        gaps = [unit * g for g in draw(st.lists(st.integers(1, 4), min_size=n - 1, max_size=n - 1))]
        period = sum(gaps) + gaps[-1]
        last = hi - draw(st.integers(0, period - 1))            # last + period > hi
        x = [last]
        for g in reversed(gaps):
            x.append(x[-1] - g)
        return "top", x[::-1]
    p = FLOAT_BITS[dtype]
    emax = 24 if dtype == "float32" else 16                      # float16: 2**16 itself overflows (max 65504)
    e = draw(st.one_of(st.just(p), st.just(emax), st.integers(-2 if dtype == "float32" else 2, emax)))
    top, u = 2.0 ** e, 2.0 ** (e - p)                            # u = ulp just below 2**e
    n = draw(st.integers(2, 30))
    gaps = draw(st.lists(st.integers(1, 4), min_size=n - 1, max_size=n - 1))
    m = [draw(st.integers(1, 2))]
    for g in reversed(gaps):
        m.append(m[-1] + g)
    kind = "below-max" if (dtype == "float16" and e == 16) else "unit-steps-below-2^p" if e == p else "below-pow2"
    return kind, [top - k * u for k in m[::-1]]


@st.composite
def narrow_y(draw, dtype, n):
    if dtype in INT_DTYPES:
        info = np.iinfo(dtype)
        lo, hi = int(info.min), int(info.max)
        return draw(st.lists(st.one_of(st.sampled_from([lo, hi, 0]), st.integers(lo, hi)), min_size=n, max_size=n))
    big = 65504.0 if dtype == "float16" else float(np.finfo(np.float32).max)
    return draw(st.lists(st.one_of(st.sampled_from([big, -big, 0.0]), st.integers(-1000, 1000).map(lambda k: k / 8)),
                         min_size=n, max_size=n))


@st.composite
def narrow_series(draw):
    xdt = draw(st.sampled_from(NARROW))
    kind, x = draw(narrow_x(xdt))
    ydt = draw(st.sampled_from([None] + NARROW + NARROW))
    if ydt is None:
        y, ykind = draw(ys(len(x)))["y"], "float64"
    else:
        y, ykind = draw(narrow_y(ydt, len(x))), ydt
    return dict(x=x, y=y, xkind=f"{xdt}:{kind}", ykind=ykind, xint=xdt in INT_DTYPES, as_list=False, xdtype=xdt,
                ydtype=ydt)


@st.composite
def base_series(draw, ctx):
    if draw(st.integers(0, 2)) == 0:
        return draw(narrow_series())
    s = draw(series(2, ctx.pick(40, 60), xkinds=XKINDS))
    if s["ykind"] in ("int", "ties") and all(float(v).is_integer() for v in s["y"]) and draw(st.booleans()):
        s = dict(s, y=[int(v) for v in s["y"]], yint=True)
    return s


def narrow_array(values, dtype):
    """ndarray of `dtype` (None: NumPy's default) holding exactly `values`; a generator slip is a harness error."""
    if dtype is None:
        return np.array(values)
    a = np.array(values, dtype=np.float64 if dtype in FLOAT_BITS else object).astype(dtype)
    if [float(v) for v in a.tolist()] != [float(v) for v in values]:
        raise RuntimeError(f"generated values are not representable in {dtype}: {values}")
    return a


def inputs(case, kx="x", ky="y"):
    x, y = case[kx], case[ky]
    if case.get("as_list"):
        return list(x), list(y)
    return narrow_array(x, case.get(kx + "dtype")), narrow_array(y, case.get(ky + "dtype"))


def leaves_dtype(x, dtype, r):
    """does the exact r-fold extension of x (or the shift of its last copy) leave the range / precision of dtype?"""
    if dtype is None or r < 2:
        return set()
    period = (x[-1] - x[0]) + (x[-1] - x[-2])
    top = x[-1] + (r - 1) * period
    out = set()
    if dtype in INT_DTYPES:
        info = np.iinfo(dtype)
        if top > info.max:
            out.add("extension-leaves-dtype")
        if (r - 1) * period > info.max:
            out.add("shift-leaves-dtype")
        return out
    want = np.array([v + k * period for k in range(r) for v in x], dtype=np.float64)
    with np.errstate(all="ignore"):
        back = want.astype(dtype).astype(np.float64)
    if not np.array_equal(back, want):
        out.add("extension-leaves-dtype")
    return out


def series_classes(case, x, r=1, kx="x", ky="y"):
    cls = {"x:" + case.get("xkind", "?"), "uniform" if is_uniform([float(v) for v in x]) else "non-uniform"}
    if case.get(kx + "dtype"):
        cls.add("xdtype:" + case[kx + "dtype"])
        cls.add("narrow-x")
        cls |= leaves_dtype(x, case[kx + "dtype"], r)
    if case.get(ky + "dtype"):
        cls.add("ydtype:" + case[ky + "dtype"])
        cls.add("narrow-y")
    if case.get("xint"):
        cls.add("int-x")
    if case.get("yint"):
        cls.add("int-y")
    if case.get("as_list"):
        cls.add("list-input")
    if len(x) == 2:
        cls.add("two-samples")
    return cls


def r_class(r):
    return "r=1" if r == 1 else "r=2" if r == 2 else "r=3..6" if r <= 6 else "r=7..12" if r <= 12 else "r=13..24"


# ---- structure of process.repeat ---------------------------------------------------------------------------------

@st.composite
def structure_case(draw, ctx):
    return dict(draw(base_series(ctx)), r=draw(REPEATS), kw=draw(st.booleans()))


def structure_body(ctx, case):
    x, y, r = case["x"], case["y"], case["r"]
    xa, ya = inputs(case)
    res = process.repeat(xa, ya, repeats=r) if case["kw"] else process.repeat(xa, ya, r)
    check_extension(f"repeat(x, y, {r})", x, y, r, res)
    cls = series_classes(case, x, r) | {r_class(r)}
    ctx.record(case, cls, ("non-uniform" in cls and r >= 2) or "extension-leaves-dtype" in cls)


# ---- identity ------------------------------------------------------------------------------------------------------

@st.composite
def identity_case(draw, ctx):
    return dict(draw(base_series(ctx)), facade=draw(st.booleans()))


def identity_body(ctx, case):
    x, y = case["x"], case["y"]
    xa, ya = inputs(case)
    cls = series_classes(case, x)
    if case["facade"]:
        w = Weaver(xa, ya)
        w.repeat(1)
        check_same("Weaver.repeat(1).get()", x, y, w.get())
        check_same("Weaver.repeat(1).get_reference()", x, y, w.get_reference())
        cls.add("via-Weaver")
    else:
        check_same("repeat(x, y, 1)", x, y, process.repeat(xa, ya, 1))
        cls.add("direct")
    ctx.record(case, cls, bool(cls & {"non-uniform", "int-x", "int-y", "narrow-x", "narrow-y"}))


# ---- composition -----------------------------------------------------------------------------------------------------

@st.composite
def composition_case(draw, ctx):
    a, b = draw(st.sampled_from(PAIRS))
    return dict(draw(base_series(ctx)), a=a, b=b, facade=draw(st.booleans()))


def composition_body(ctx, case):
    x, y, a, b = case["x"], case["y"], case["a"], case["b"]
    n = len(x)
    xa, ya = inputs(case)
    cls = series_classes(case, x, a * b) | {r_class(a * b), "a=1" if a == 1 else "b=1" if b == 1 else "a,b>=2"}
    if case["facade"]:
        w2, w3 = Weaver(xa, ya), Weaver(*inputs(case))
        w2.repeat(a)
        w2.repeat(b)
        w3.repeat(a * b)
        pairs = [("Weaver.repeat(a).repeat(b).get()", w2.get(), w3.get()),
                 ("Weaver.repeat(a).repeat(b).get_reference()", w2.get_reference(), w3.get_reference())]
        cls.add("via-Weaver")
    else:
        step1 = pair("repeat(x, y, a)", process.repeat(xa, ya, a))
        as_float_array("repeat(x, y, a): x", step1[0], a * n)
        as_float_array("repeat(x, y, a): y", step1[1], a * n)
        pairs = [("repeat(repeat(x, y, a), b)", process.repeat(step1[0], step1[1], b), process.repeat(xa, ya, a * b))]
        cls.add("direct")
    for name, two, one in pairs:
        name = f"{name} with a={a}, b={b}"
        # against the closed form for a*b ...
        check_extension(name, x, y, a * b, two)
        # ... and against the single call, as the statement puts it
        X2, Y2 = (as_float_array(f"{name}: {k}", v, a * b * n) for k, v in zip("xy", two))
        one = pair("repeat a*b", one)
        X3, Y3 = (as_float_array(f"repeat a*b: {k}", v, a * b * n) for k, v in zip("xy", one))
        if not np.array_equal(bits(Y2), bits(Y3)):
            k = first_diff(Y2, Y3)
            raise Violation(f"{name}: y[{k}] = {Y2[k]!r} but repeating {a * b} times gives {Y3[k]!r}")
        scale = float(np.max(np.abs(X3)))
        dev = np.abs(X2 - X3)
        if np.any(dev > RTOL * scale):
            k = int(np.argmax(dev))
            raise Violation(f"{name}: x[{k}] = {X2[k]!r} but repeating {a * b} times gives {X3[k]!r}")
    ctx.record(case, cls, ("non-uniform" in cls or "extension-leaves-dtype" in cls) and a >= 2 and b >= 2)


# ---- Weaver.repeat: working series and reference -------------------------------------------------------------------------

@st.composite
def weaver_case(draw, ctx):
    s = draw(base_series(ctx))
    case = dict(s, r=draw(REPEATS), xw=None, yw=None)
    if draw(st.integers(0, 2)) != 0:
        o = draw(base_series(ctx))
        case.update(xw=o["x"], yw=o["y"], wkind=o["xkind"], xwdtype=o.get("xdtype"), ywdtype=o.get("ydtype"))
    return case


def weaver_body(ctx, case):
    x, y, r = case["x"], case["y"], case["r"]
    w = Weaver(*inputs(case))
    cls = series_classes(case, x, r) | {r_class(r)}
    xw, yw = x, y
    if case["xw"] is not None:
        xw, yw = case["xw"], case["yw"]
        w.x, w.y = narrow_array(xw, case.get("xwdtype")), narrow_array(yw, case.get("ywdtype"))
        if case.get("xwdtype"):
            cls.add("working-xdtype:" + case["xwdtype"])
            cls |= {"working-" + c for c in leaves_dtype(xw, case["xwdtype"], r)}
        cls.add("working-differs-from-reference")
        cls.add("working:" + ("uniform" if is_uniform([float(v) for v in xw]) else "non-uniform"))
        if len(xw) != len(x):
            cls.add("working-length-differs")
    else:
        cls.add("fresh")
    w.repeat(r)
    check_extension(f"Weaver.repeat({r}).get()", xw, yw, r, w.get())
    check_extension(f"Weaver.repeat({r}).get_reference()", x, y, r, w.get_reference())
    ctx.record(case, cls, (("non-uniform" in cls or "working:non-uniform" in cls) and r >= 2)
               or "extension-leaves-dtype" in cls or "working-extension-leaves-dtype" in cls)


SUBCHECKS = [
    Sub("structure", "hyp", structure_body, strategy=structure_case, quick=500, thorough=10000,
        clause="r*len samples, values tiled, first copy = input, strictly increasing, original gaps in every copy, "
               "last step across every junction"),
    Sub("identity", "hyp", identity_body, strategy=identity_case, quick=500, thorough=10000,
        clause="repeating once is the identity (direct and through the Weaver)"),
    Sub("composition", "hyp", composition_body, strategy=composition_case, quick=500, thorough=10000,
        clause="repeat a times then b times equals repeat a*b times"),
    Sub("weaver", "hyp", weaver_body, strategy=weaver_case, quick=500, thorough=10000,
        clause="Weaver.repeat extends the working series and the reference alike"),
]
