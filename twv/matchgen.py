"""Generator and expected-geometry oracle shared by C01 and C03: inputs of integral_matching_reference_stretch.

A case is a JSON-able dict
  x, y              target samples (lists)
  x_ref, y_ref      reference samples
  mode              'search' | 'positions' | 'indices'
  strategy          'closest' | 'lower' | 'higher'        (search mode)
  fixed             planned fixed indices (explicit modes: what is handed over)
  tr, rr            target / reference integration rule
  alpha             stretch exponent (None = default)
  as_list           hand x, y over as Python lists
"""
import math

from hypothesis import strategies as st

from twv import oracles
from twv.gens import fl, xs, ys

RULES = ["trapezoid", "rectangle"]


@st.composite
def layout(draw, ctx, big=False):
    """number of intervals, interior counts, lead / tail -> (m, fixed indices)"""
    if big:
        k = draw(st.integers(8, 60))
        interior = [draw(st.integers(1, 16)) for _ in range(k)]
    else:
        k = draw(st.integers(1, ctx.pick(8, 12)))
        interior = draw(st.lists(st.sampled_from([1, 1, 2, 2, 3, 4, 5, 9]), min_size=k, max_size=k))
    lead = draw(st.sampled_from([0, 0, 1, 3]))
    tail = draw(st.sampled_from([0, 0, 1, 2]))
    fixed = [lead]
    for c in interior:
        fixed.append(fixed[-1] + c + 1)
    m = fixed[-1] + 1 + tail
    return m, fixed


@st.composite
def match_case(draw, ctx, big=False):
    m, fixed = draw(layout(ctx, big))
    if big:
        xd = draw(xs(m, kinds=["unit", "fstep", "motif", "hours"]))
        yd = draw(ys(m, kinds=["int", "sign", "smooth"])) if m <= 300 else _cheap_y(draw, m)
    else:
        xd = draw(xs(m, kinds=["unit", "fstep", "dyadic", "loguni", "motif", "hours", "epoch"]))
        yd = draw(ys(m))
    x, y = xd["x"], yd["y"]
    mode = draw(st.sampled_from(["search", "search", "positions", "indices"]))
    tr = draw(st.sampled_from(RULES))
    rr = draw(st.sampled_from(RULES))
    alpha = draw(st.one_of(st.none(), st.sampled_from([0.5, 1.0, 2.0, 3.0]),
                           fl(-4.0, 4.0).map(lambda e: 2.0 ** e)))
    k = len(fixed) - 1
    case = dict(x=x, y=y, mode=mode, fixed=fixed, tr=tr, rr=rr, alpha=alpha, xkind=xd["kind"], ykind=yd["kind"],
                as_list=draw(st.integers(0, 5)) == 0, facade=draw(st.integers(0, 3)) == 0)
    # integer-valued data may arrive with an integer dtype (counts): "every finite y"
    if all(float(v).is_integer() and abs(v) < 2 ** 40 for v in y):
        case["yint"] = draw(st.booleans())
    if all(float(v).is_integer() and abs(v) < 2 ** 40 for v in x):
        case["xint"] = draw(st.booleans())
    offgrid = draw(st.booleans())
    case["offgrid"] = offgrid
    fx = [x[i] for i in fixed]
    if mode == "search":
        strategy = draw(st.sampled_from(["closest", "lower", "higher"]))
        case["strategy"] = strategy
        xr = []
        for j, i in enumerate(fixed):
            r = fx[j]
            if offgrid:
                t = draw(st.sampled_from([0.25, 0.45, 1.0, -0.3, -0.45, 0.7, -0.8]))
                left = x[i] - x[i - 1] if i > 0 else None
                right = x[i + 1] - x[i] if i + 1 < m else None
                if strategy == "closest" and t != 1.0 and abs(t) >= 0.5:
                    t = t / 2
                if strategy == "closest":
                    # |shift| < half gap keeps x[i] the nearest sample; t == 1.0 is the exact midpoint tie (-> lower)
                    if t == 1.0 and right is not None:
                        r = x[i] + right / 2
                        if not (r - x[i] == x[i + 1] - r):
                            r = fx[j]
                    elif t > 0 and right is not None:
                        r = x[i] + t * right
                    elif t < 0 and left is not None:
                        r = x[i] + t * left
                    elif t > 0 and right is None:
                        r = x[i] + t          # beyond the last sample: still the last sample
                    elif t < 0 and left is None:
                        r = x[i] + t          # before the first sample
                elif strategy == "lower":
                    if right is not None:
                        r = x[i] + abs(t) * 0.9 * right
                    else:
                        r = x[i] + abs(t)
                    if left is None and t < 0:
                        r = x[i] + t          # below the range: filled with the first index
                else:
                    if left is not None:
                        r = x[i] - abs(t) * 0.9 * left
                    else:
                        r = x[i] - abs(t)
                    if right is None and t > 0 and t != 1.0:
                        r = x[i] + t          # above the range: filled with the last index
            xr.append(float(r))
        ok = all(b > a for a, b in zip(xr[:-1], xr[1:]))
        if not ok:
            xr = list(fx)
            case["offgrid"] = False
        case["x_ref"] = xr
    else:
        xr = []
        for j, i in enumerate(fixed):
            gl = fx[j] - fx[j - 1] if j > 0 else None
            gr = fx[j + 1] - fx[j] if j < k else None
            g = min(v for v in (gl, gr) if v is not None)
            t = draw(st.sampled_from([0.0, 0.2, -0.2, 0.1])) if offgrid else 0.0
            xr.append(float(fx[j] + t * g))
        extras = draw(st.booleans())
        case["extras"] = extras
        if extras:
            out = []
            if draw(st.booleans()):
                g = fx[1] - fx[0]
                out.append(float(xr[0] - 0.6 * g))
            for j in range(k):
                out.append(xr[j])
                g = fx[j + 1] - fx[j]
                ne = draw(st.integers(0, 2))
                pos = sorted(draw(st.lists(st.sampled_from([0.35, 0.4, 0.5, 0.6, 0.65]), min_size=ne, max_size=ne,
                                           unique=True)))
                for p in pos:
                    out.append(float(fx[j] + p * g))
            out.append(xr[k])
            if draw(st.booleans()):
                g = fx[k] - fx[k - 1]
                out.append(float(xr[k] + 0.6 * g))
            if all(b > a for a, b in zip(out[:-1], out[1:])):
                xr = out
        case["x_ref"] = xr
    if mode != "search" and draw(st.booleans()):
        # the designation is a set: the order in which the caller lists the fixed points must not matter
        case["order"] = draw(st.permutations(list(range(len(fixed)))))
    if mode != "search" and draw(st.integers(0, 2)) == 0:
        # documented: the search strategy is used "if fixed points are not specified" - with an explicit designation
        # it must be irrelevant (reference positions are matched to the nearest fixed point either way)
        case["decoy_strategy"] = draw(st.sampled_from(["lower", "higher"]))
    if mode == "indices" and draw(st.integers(0, 2)) == 0:
        # documented: "fixed_points_indices_in_x: if set, fixed_points_in_x is set according to that points" - a
        # fixed_points_in_x handed over next to the indices (another subset of the samples) is overridden
        pool = [i for i in range(m) if i not in fixed]
        nd = draw(st.integers(1, max(1, min(len(pool), len(fixed) + 2))))
        picks = draw(st.lists(st.sampled_from(pool), min_size=nd, max_size=nd, unique=True)) if pool else []
        case["decoy_points"] = sorted(set([fixed[0], fixed[-1]][:draw(st.integers(0, 2))] + picks))
    if case["facade"]:
        # reference-changing operations before the matching: the facade must match against the reference as it is
        # *now* (get_reference()), not against the series the Weaver was constructed with.  Powers of two: exact.
        case["facade_pre"] = [draw(st.sampled_from([1.0, 2.0, 0.5, 4.0])), draw(st.sampled_from([1.0, 1.0, 2.0, 0.25])),
                              draw(st.sampled_from([0.0, 0.0, 1.0, -2.5, 64.0])), draw(st.sampled_from([0.0, 0.0, 1.0, -8.0]))]
    yr = draw(ys(len(case["x_ref"])))
    case["y_ref"] = yr["y"]
    case["yrkind"] = yr["kind"]
    return case


def _cheap_y(draw, m):
    scale = 10.0 ** draw(st.integers(-2, 3))
    w = draw(fl(0.01, 1.0))
    motif = draw(st.lists(st.integers(-3, 3), min_size=1, max_size=5))
    y = [scale * (math.sin(w * i) + 0.1 * motif[i % len(motif)]) for i in range(m)]
    return dict(kind="formula", y=y)


def expected_geometry(case):
    """Fixed indices in x and matched reference indices, from the documented designation rules
    (brute-force searches).  Returns None when the construction degenerated (not a valid input)."""
    x, xr = case["x"], case["x_ref"]
    if case["mode"] == "search":
        idx = oracles.search(x, xr, case["strategy"], True)
        F = sorted(set(idx))
        if len(F) != len(xr):
            return None
        R = list(range(len(xr)))
    else:
        F = sorted(set(case["fixed"]))
        fx = [x[i] for i in F]
        ridx = [oracles.closest_index(xr, v) for v in fx]
        R = sorted(set(ridx))
        if len(R) != len(F):
            return None
        # margin: the matched reference point must be the unambiguous closest one
        for v, r in zip(fx, ridx):
            if len(oracles.closest_candidates(xr, v)) != 1:
                return None
    if len(F) < 2:
        return None
    if any(b - a < 2 for a, b in zip(F[:-1], F[1:])):
        return None
    if case["mode"] == "search" and case["strategy"] == "closest":
        for q in xr:
            # a float "midpoint" whose exact distances differ by less than the rounding of the subtractions:
            # either neighbour is an admissible fixed point, the case is not judged
            if len(oracles.closest_candidates(x, q)) != 1:
                return None
    return F, R


def call_kwargs(case):
    kw = dict(target_function_integral_method=case["tr"], reference_function_integral_method=case["rr"])
    if case["alpha"] is not None:
        kw["alpha"] = case["alpha"]
    if case["mode"] == "search":
        kw["fixed_points_finding_strategy"] = case["strategy"]
    elif case["mode"] == "positions":
        order = case.get("order") or range(len(case["fixed"]))
        kw["fixed_points_in_x"] = [case["x"][case["fixed"][k]] for k in order]
    else:
        order = case.get("order") or range(len(case["fixed"]))
        kw["fixed_points_indices_in_x"] = [case["fixed"][k] for k in order]
        if case.get("decoy_points"):
            kw["fixed_points_in_x"] = [case["x"][i] for i in case["decoy_points"]]
    if case.get("decoy_strategy"):
        kw["fixed_points_finding_strategy"] = case["decoy_strategy"]
    return kw


def classes(case):
    from twv.gens import is_uniform
    a = case["alpha"]
    ab = "default" if a is None else ("<1" if a < 1 else ("=1" if a == 1 else ">1"))
    cls = [f"mode:{case['mode']}" + (":" + case["strategy"] if case["mode"] == "search" else ""),
           f"rules:{case['tr'][:4]}/{case['rr'][:4]}", "uniform" if is_uniform(case["x"]) else "non-uniform",
           "offgrid-ref" if case.get("offgrid") else "ongrid-ref", f"alpha{ab}"]
    if case.get("extras"):
        cls.append("extra-ref-points")
    if len(case["x"]) > 200:
        cls.append("large")
    if case.get("yint"):
        cls.append("int-dtype-y")
    if case.get("xint"):
        cls.append("int-dtype-x")
    if case.get("order") and list(case["order"]) != sorted(case["order"]):
        cls.append("unordered-fixed-points")
    if case.get("decoy_strategy"):
        cls.append("explicit+irrelevant-strategy")
    if case.get("decoy_points"):
        cls.append("indices+overridden-positions")
    if case.get("facade") and case.get("facade_pre") and list(case["facade_pre"]) not in ([1.0, 1.0], [1.0, 1.0, 0.0, 0.0]):
        cls.append("facade-after-unit-conversion")
    return cls


# ---- rounding model of the end weights (DESIGN C03) ---------------------------------------------------------------
EPS = 2.0 ** -52


def weight_bands(x, lo, hi, alpha):
    """Closed-form weights 1-(2|x-c|/width)^alpha of samples lo..hi with the interval each can fall into when
    the mid-abscissa and the subtraction are rounded (absolute uncertainty 4 ulp of |x| on the distance)."""
    c = x[lo] + (x[hi] - x[lo]) / 2
    width = x[hi] - x[lo]
    xm = max(abs(x[lo]), abs(x[hi]))
    du = 8 * EPS * xm / width + 4 * EPS
    out = []
    for i in range(lo, hi + 1):
        u = 2 * abs(x[i] - c) / width
        w = 1 - u ** alpha
        wlo = 1 - (u + du) ** alpha
        whi = 1 - max(u - du, 0.0) ** alpha
        out.append((w, min(wlo, whi), max(wlo, whi)))
    return out


def yhat_estimates(x, y, z, F, alpha):
    """Shift scaling factor of every interval, read off the best-conditioned interior sample."""
    out = []
    for j in range(len(F) - 1):
        lo, hi = F[j], F[j + 1]
        bands = weight_bands(x, lo, hi, alpha)
        best, bestq = None, None
        for k in range(1, hi - lo):
            w, wlo, whi = bands[k]
            if wlo <= 0:
                continue
            q = (whi - wlo) / wlo
            if bestq is None or q < bestq:
                best, bestq = k, q
        if best is None:
            out.append((0.0, 0.0, 0.0, None))
            continue
        d = float(z[lo + best]) - float(y[lo + best])
        w, wlo, whi = bands[best]
        # the displacement is only known to the rounding of the sample it was added to (a shift of 1e-16 vanishes
        # in a sample of 2.0 but still moves its zero-valued neighbours and, through the end weights, the fixed points)
        derr = EPS * (abs(float(z[lo + best])) + abs(float(y[lo + best])))
        corners = [(d + e) / ww for e in (-derr, derr) for ww in (wlo, whi)]
        out.append((d / w, min(corners), max(corners), lo + best))
    return out


def fixed_point_bound(x, F, yhats, alpha, jj):
    """How far fixed sample F[jj] may move because the end weights are ~eps*alpha*|x|/width instead of 0."""
    bound = 0.0
    for j in (jj - 1, jj):
        if 0 <= j < len(F) - 1:
            lo, hi = F[j], F[j + 1]
            xm = max(abs(x[lo]), abs(x[hi]))
            bound += max(1.0, alpha) * (1 + xm / (x[hi] - x[lo])) * max(abs(yhats[j][1]), abs(yhats[j][2]))
    return 64 * EPS * bound


# ---- sibling pairs: state must not leak between calls --------------------------------------------------------------

@st.composite
def sibling_pair(draw, ctx):
    """Two valid cases on the same target samples whose references have the same number of points and the same
    first and last position but different interior positions (a result cached on sizes / end points only would be
    wrong for the second one)."""
    k = draw(st.integers(2, 6))
    interior = [draw(st.integers(1, 4)) for _ in range(k)]
    fixed = [0]
    for c in interior:
        fixed.append(fixed[-1] + c + 1)
    m = fixed[-1] + 1
    xd = draw(xs(m, kinds=["unit", "fstep", "dyadic", "motif", "hours"]))
    yd = draw(ys(m))
    x, y = xd["x"], yd["y"]
    # sibling: move every interior fixed index by +-1 where both neighbouring intervals keep an interior sample
    fixed2 = list(fixed)
    moved = False
    for j in range(1, k):
        step = draw(st.sampled_from([1, -1]))
        cand = fixed2[j] + step
        if cand - fixed2[j - 1] >= 2 and fixed[j + 1] - cand >= 2:
            fixed2[j] = cand
            moved = True
    tr = draw(st.sampled_from(RULES))
    rr = draw(st.sampled_from(RULES))
    strategy = draw(st.sampled_from(["closest", "lower", "higher"]))
    yr = draw(ys(k + 1))["y"]
    base = dict(x=x, y=y, mode="search", strategy=strategy, tr=tr, rr=rr, alpha=draw(st.sampled_from([None, 0.5, 2.0])),
                as_list=False, facade=False, offgrid=False, xkind=xd["kind"], ykind=yd["kind"], yrkind="pair")
    a = dict(base, fixed=fixed, x_ref=[x[i] for i in fixed], y_ref=yr)
    b = dict(base, fixed=fixed2, x_ref=[x[i] for i in fixed2], y_ref=yr)
    return dict(a=a, b=b, moved=moved)
