"""Concrete (JSON-able) Weaver operations, a session that applies them with invariants after every step,
and a pure model of the ten domain operations.  Used by the state machines of C08, C09 and C20 and by the
replay of their recorded traces (the same Session code runs in both, so a replay is the history itself)."""
import copy
import math

import numpy as np

from twv import oracles
from twv.runner import Violation

import traffic_weaver.rfa as rfa_mod
from traffic_weaver import Weaver

DOMAIN_OPS = ["append", "shift_x", "shift_y", "scale_x", "scale_y", "normalize_x", "normalize_y", "repeat",
              "truncate_value", "truncate_index"]
RESHAPING_OPS = ["recreate", "match", "interpolate", "smooth", "trend", "noise"]
ALL_OPS = DOMAIN_OPS + RESHAPING_OPS + ["restore"]


def trend_callable(spec):
    kind = spec["kind"]
    if kind == "poly":
        coef = spec["coef"]
        return lambda t: sum(c * t ** i for i, c in enumerate(coef))
    if kind == "sin":
        return lambda t: spec["A"] * math.sin(spec["w"] * t + spec["phi"])
    if kind == "zero":
        return lambda t: 0.0
    raise KeyError(kind)


def apply_op(w, op, keep=None):
    """Apply one concrete operation to a Weaver through its public API.  Array arguments built for the call are
    appended to `keep` as (label, object, pristine copy): they are the caller's data as well."""
    k = op["op"]
    if k == "append":
        return w.append_one_sample(make_periodic=op["periodic"])
    if k in ("shift_x", "shift_y", "scale_x", "scale_y"):
        return getattr(w, k)(op["v"])
    if k in ("normalize_x", "normalize_y"):
        return getattr(w, k)(op["lo"], op["hi"])
    if k == "repeat":
        return w.repeat(op["n"])
    if k == "truncate_value":
        return w.truncate_by_value(op["left"], op["right"], x_left_as_ratio=op["lr"], x_right_as_ratio=op["rr"])
    if k == "truncate_index":
        return w.truncate_by_index(op["start"], op["stop"])
    if k == "recreate":
        return w.recreate_from_average(op["n"], rfa_class=getattr(rfa_mod, op["strategy"]), **op["kw"])
    if k == "match":
        kw = {}
        if op.get("alpha") is not None:
            kw["alpha"] = op["alpha"]
        if op.get("ref_rule") is not None:
            kw["reference_function_integral_method"] = op["ref_rule"]
        if op.get("search") is not None:
            kw["fixed_points_finding_strategy"] = op["search"]
        if op.get("fixed_x") is not None:
            kw["fixed_points_in_x"] = np.array(op["fixed_x"], dtype=float)
            if keep is not None:
                keep.append(("fixed_points_in_x of integral_match", kw["fixed_points_in_x"],
                             kw["fixed_points_in_x"].copy()))
        if op.get("fixed_idx") is not None:
            kw["fixed_points_indices_in_x"] = op["fixed_idx"]
        return w.integral_match(target_function_integral_method=op["rule"], **kw)
    if k == "interpolate":
        if op.get("new_x") is not None:
            nx = list(op["new_x"]) if op.get("as_list") else np.array(op["new_x"], dtype=float)
            if keep is not None:
                keep.append(("new_x of interpolate", nx, copy.deepcopy(nx)))
            return w.interpolate(new_x=nx, method=op["method"])
        return w.interpolate(n=op["n"], method=op["method"])
    if k == "smooth":
        return w.smooth(op["s"])
    if k == "trend":
        return w.trend(trend_callable(op["fun"]), normalized=op["normalized"])
    if k == "noise":
        np.random.seed(op["seed"])
        snr = op["snr"]
        if isinstance(snr, list):
            snr = np.array(snr, dtype=float)
            if keep is not None:
                keep.append(("snr of noise", snr, snr.copy()))
        return w.noise(snr, snr_in_db=op.get("db", True))
    if k == "restore":
        return w.restore_original()
    raise KeyError(k)


# ---- pure model of the ten domain operations (from the docstrings; no traffic_weaver code) ----------------------

def model_truncate_bounds(x, left, right, lr, rr):
    span = x[-1] - x[0]
    if lr:
        left = left * span + x[0]
    if rr:
        right = right * span + x[0]
    a = 0
    for i, v in enumerate(x):
        if v <= left:
            a = i
    b = len(x) - 1
    for i, v in enumerate(x):
        if v >= right:
            b = i
            break
    return a, b, left, right


def model_apply(x, y, op):
    """x, y: float ndarrays; returns new (x, y)."""
    k = op["op"]
    if k == "append":
        return np.append(x, 2 * x[-1] - x[-2]), np.append(y, y[0] if op["periodic"] else y[-1])
    if k == "shift_x":
        return x + op["v"], y
    if k == "shift_y":
        return x, y + op["v"]
    if k == "scale_x":
        return x * op["v"], y
    if k == "scale_y":
        return x, y * op["v"]
    if k == "normalize_x":
        return model_normalize(x, op["lo"], op["hi"]), y
    if k == "normalize_y":
        return x, model_normalize(y, op["lo"], op["hi"])
    if k == "repeat":
        period = (x[-1] - x[0]) + (x[-1] - x[-2])
        xs = np.concatenate([x + i * period for i in range(op["n"])])
        return xs, np.tile(y, op["n"])
    if k == "truncate_value":
        a, b, _, _ = model_truncate_bounds([float(v) for v in x], op["left"], op["right"], op["lr"], op["rr"])
        return x[a:b + 1], y[a:b + 1]
    if k == "truncate_index":
        return x[op["start"]:op["stop"]], y[op["start"]:op["stop"]]
    raise KeyError(k)


def model_normalize(a, lo, hi):
    mn, mx = float(np.min(a)), float(np.max(a))
    return (a - mn) / (mx - mn) * (hi - lo) + lo


def amplification(before, after, op):
    """How much a rounding-level disagreement between model and code can grow through this operation
    (cancellation in shifts / normalisation)."""
    k = op["op"]
    if k in ("shift_x", "shift_y", "normalize_x", "normalize_y"):
        b = float(np.max(np.abs(before))) + abs(op.get("v", 0.0)) + abs(op.get("lo", 0.0)) + abs(op.get("hi", 0.0))
        if k.startswith("normalize"):
            rng = float(np.max(before) - np.min(before))
            return max(1.0, b / rng) if rng > 0 else 1.0
        a = float(np.max(np.abs(after)))
        return max(1.0, b / a) if a > 0 else 1.0
    return 1.0


# ---- observable-state helpers -----------------------------------------------------------------------------------

def snapshot(w):
    out = []
    for getter in (w.get, w.get_reference, w.get_original):
        pair = getter()
        out.append(tuple(_snap(a) for a in pair))
    return out


def _snap(a):
    if isinstance(a, np.ndarray):
        return ("nd", str(a.dtype), a.copy())
    return (type(a).__name__, None, copy.deepcopy(a))


def same_snapshot(s1, s2):
    for p1, p2 in zip(s1, s2):
        for (t1, d1, a1), (t2, d2, a2) in zip(p1, p2):
            if t1 != t2 or d1 != d2:
                return False
            if t1 == "nd":
                if a1.shape != a2.shape or not np.array_equal(a1, a2, equal_nan=True):
                    return False
            elif a1 != a2:
                return False
    return True


def well_formed(pair, what, strict_x=True):
    if not (isinstance(pair, tuple) and len(pair) == 2):
        raise Violation(f"{what} is not a pair")
    x, y = pair
    for nm, a in (("x", x), ("y", y)):
        if not isinstance(a, np.ndarray):
            raise Violation(f"{what}: {nm} is {type(a).__name__}, not numpy.ndarray")
        if a.ndim != 1:
            raise Violation(f"{what}: {nm} has ndim {a.ndim}")
        if not (np.issubdtype(a.dtype, np.floating) or np.issubdtype(a.dtype, np.integer)):
            raise Violation(f"{what}: {nm} has dtype {a.dtype}")
        if not np.all(np.isfinite(a)):
            raise Violation(f"{what}: {nm} contains non-finite values")
    if len(x) != len(y):
        raise Violation(f"{what}: x has {len(x)} samples, y has {len(y)}")
    if strict_x and len(x) > 1 and not np.all(np.diff(x) > 0):
        i = int(np.where(np.diff(x) <= 0)[0][0])
        raise Violation(f"{what}: x not strictly increasing at {i}: {x[i]!r}, {x[i + 1]!r}")
    return x, y


def match_admissible(x, xr, min_gap=2):
    """integral_match's documented precondition, on the observable state: every reference abscissa selects its
    own closest sample (unambiguously), and consecutive selected samples have an interior sample between them."""
    x = [float(v) for v in x]
    xr = [float(v) for v in xr]
    if len(xr) < 2 or len(x) < (3 if min_gap >= 2 else 2):
        return False
    if xr[0] < x[0] - 1e-9 * (abs(x[0]) + 1) - 0.5 * (x[1] - x[0]) or xr[-1] > x[-1] + 0.5 * (x[-1] - x[-2]):
        return False
    # two-pointer nearest search (x and xr sorted)
    idx = []
    j = 0
    for q in xr:
        while j + 1 < len(x) and x[j + 1] <= q:
            j += 1
        cand = j
        if j + 1 < len(x):
            dl, dr = q - x[j], x[j + 1] - q
            if abs(dl - dr) <= 8 * np.spacing(max(abs(q), abs(x[j + 1]))):
                return False                      # tie / ambiguous
            if dl < 0:
                cand = j
            elif dr < dl:
                cand = j + 1
        idx.append(cand)
    return all(b - a >= min_gap for a, b in zip(idx[:-1], idx[1:]))
