"""Generators and runners shared by the recreate-from-average properties (C02, C04-C07)."""
import numpy as np
from hypothesis import strategies as st

from twv import gens
from twv.gens import fl
from twv.runner import Violation

import traffic_weaver.rfa as rfa_mod
from traffic_weaver import Weaver


def strategy_class(name):
    return getattr(rfa_mod, name)


@st.composite
def rfa_case(draw, ctx, strategies=None, m_lo=2, m_hi=None, n_hi=None, ykinds=None, xkinds=None, exp_lo=0.02,
             smooth_default=False, max_ratio=1e3, nonconstant=False, alpha_hi=1.0):
    name = draw(st.sampled_from(strategies or gens.STRATEGY_NAMES))
    m_hi = m_hi or ctx.pick(14, 60)
    n_hi = n_hi or ctx.pick(24, 64)
    if name == "CubicSplineRFA":
        max_ratio = min(max_ratio, 1e2)
    s = draw(gens.series(m_lo, m_hi, xkinds=xkinds, ykinds=ykinds, max_ratio=max_ratio, nonconstant=nonconstant))
    n = draw(st.one_of(st.sampled_from([2, 3, 4, 8, 10]), st.integers(2, n_hi)))
    kw = draw(gens.rfa_params(name, n, exp_lo=exp_lo, smooth_default=smooth_default, alpha_hi=alpha_hi))
    case = dict(strategy=name, x=s["x"], y=s["y"], n=n, kw=kw, xkind=s["xkind"], ykind=s["ykind"], xint=s["xint"],
                as_list=s["as_list"])
    # integer-valued averages may arrive in any integer dtype (counters: unsigned, narrow)
    yv = s["y"]
    if all(float(v).is_integer() for v in yv) and draw(st.integers(0, 2)) == 0:
        lo, hi = min(yv), max(yv)
        ok = [d for d, (a, b) in {"int8": (-128, 127), "int16": (-2 ** 15, 2 ** 15 - 1), "int32": (-2 ** 31, 2 ** 31 - 1),
                                  "int64": (-2 ** 62, 2 ** 62), "uint8": (0, 255), "uint16": (0, 2 ** 16 - 1),
                                  "uint32": (0, 2 ** 32 - 1), "uint64": (0, 2 ** 62)}.items() if a <= lo and hi <= b]
        if ok:
            case["ydtype"] = draw(st.sampled_from(ok))
    return case


def _fits(values, dtype):
    info = np.iinfo(dtype)
    return all(float(v).is_integer() and info.min <= v <= info.max for v in values)


def inputs(case):
    # derived cases (mapped / perturbed values) may no longer be representable in the drawn integer dtype
    if case.get("ydtype") and not _fits(case["y"], case["ydtype"]):
        case = dict(case, ydtype=None)
    if case.get("as_list"):
        if case.get("ydtype"):
            return list(case["x"]), [int(v) for v in case["y"]]
        return list(case["x"]), list(case["y"])
    x = np.array(case["x"], dtype=np.int64 if case.get("xint") else float)
    if case.get("ydtype"):
        return x, np.array([int(v) for v in case["y"]], dtype=case["ydtype"])
    return x, np.array(case["y"], dtype=float)


def run_rfa(case, x=None, y=None):
    """Direct use of the strategy class; validates the container types before anything is computed with them."""
    cx, cy = inputs(case)
    x = cx if x is None else x
    y = cy if y is None else y
    res = strategy_class(case["strategy"])(x, y, case["n"], **case["kw"]).rfa()
    return check_pair(res, (len(case["x"]) - 1) * case["n"] + 1, "rfa()")


def check_pair(res, length, what):
    if not (isinstance(res, tuple) and len(res) == 2):
        raise Violation(f"{what} did not return a pair")
    xs, ys = res
    for nm, a in (("x", xs), ("y", ys)):
        if not isinstance(a, np.ndarray):
            raise Violation(f"{what}: {nm} is {type(a).__name__}, not numpy.ndarray")
        if a.ndim != 1:
            raise Violation(f"{what}: {nm} has ndim {a.ndim}")
        if not np.issubdtype(a.dtype, np.floating):
            raise Violation(f"{what}: {nm} has dtype {a.dtype}")
        if length is not None and len(a) != length:
            raise Violation(f"{what}: {nm} has length {len(a)}, expected {length}")
        if not np.all(np.isfinite(a)):
            raise Violation(f"{what}: {nm} contains non-finite values")
    return xs, ys


def run_weaver_recreate(case):
    x, y = inputs(case)
    w = Weaver(x, y)
    w.recreate_from_average(case["n"], rfa_class=strategy_class(case["strategy"]), **case["kw"])
    return w


def classes(case):
    cls = ["s:" + case["strategy"], "x:" + case["xkind"], "y:" + case["ykind"],
           "uniform" if gens.is_uniform(case["x"]) else "non-uniform"]
    kw = case["kw"]
    cls.append("params:default" if not kw else "params:custom")
    if "a" in kw:
        cls.append("explicit-a")
    if "alpha" in kw:
        cls.append("alpha-given")
    if kw.get("beta") in (0.0, 1.0):
        cls.append(f"beta={kw['beta']:.0f}")
    if "exp" in kw and kw["exp"] != 2.0:
        cls.append("exp!=2")
    if "adaptive_smooth" in kw and kw["adaptive_smooth"] != 1.0:
        cls.append("smooth!=1")
    if case.get("as_list"):
        cls.append("list-input")
    if case.get("xint"):
        cls.append("int-x")
    if case.get("ydtype"):
        cls.append("y:" + case["ydtype"])
    return cls


def tie_pattern(y, k):
    """for interval k (0..m-2): which neighbours equal it (virtual neighbours: itself on the left, y[m-1] right)"""
    left = y[k - 1] if k > 0 else y[k]
    right = y[k + 1]
    return ("L=" if left == y[k] else "L!") + ("R=" if right == y[k] else "R!")
