"""Runner for the traffic-weaver property checks.

One invocation = one property, one tier.  A property module (twv/props/cNN.py) exposes

    PROPERTY   = "C01"
    LEVEL      = "exploration" | "fault_enumeration"
    RULE       = "<how cases are generated and what makes one non-trivial>"
    ASSUMPTIONS = [...]
    SUBCHECKS  = [Sub(...), ...]
    WITNESSES  = {finding_id: callable -> (still_fails: bool, text)}      (optional)

Every sub-check is either
  * kind "hyp":   strategy(ctx) -> Hypothesis strategy of JSON-able cases; body(ctx, case) raises Violation
  * kind "enum":  cases(ctx, shard, nshards) -> iterator of JSON-able cases; body(ctx, case) raises Violation
  * kind "machine": machine(ctx) -> RuleBasedStateMachine subclass whose instances keep `.trace`;
                  body(ctx, case) replays a recorded trace without Hypothesis.

Exit codes: 0 property held on everything explored (KNOWN-FINDING lines allowed), 1 violation
(line "VIOLATION property=<id> replay=<path>"), 2 harness error (line "HARNESS-ERROR ...").
"""
import collections
import hashlib
import importlib
import json
import multiprocessing
import os
import sys
import time
import traceback
import warnings

VERIF = os.path.dirname(os.path.dirname(os.path.abspath(__file__)))
SRC = os.path.abspath(os.environ.get("TWV_SRC", "/repo/src"))
NPROC = int(os.environ.get("TWV_NPROC", "16"))
# the per-sub-check thorough budgets in the property modules are multiplied by this factor (generated cases only;
# enumerations have their own thorough bounds)
THOROUGH_SCALE = float(os.environ.get("TWV_THOROUGH_SCALE", "5"))
QUICK_SCALE = float(os.environ.get("TWV_QUICK_SCALE", "3"))


def _setup_path():
    deps = os.path.join(VERIF, ".deps")
    if os.path.isdir(deps) and deps not in sys.path:
        sys.path.insert(1, deps)
    if SRC not in sys.path:
        sys.path.insert(0, SRC)


_setup_path()


class Violation(Exception):
    """Oracle verdict: the property does not hold for `case`."""

    def __init__(self, msg, case=None, detail=None):
        super().__init__(msg)
        self.msg = msg
        self.case = case
        self.detail = detail


class Sub:
    def __init__(self, name, kind, body, strategy=None, cases=None, machine=None, quick=200, thorough=None,
                 shards=16, clause="", steps=(8, 8), exhaustive=False):
        self.name = name
        self.kind = kind
        self.body = body
        self.strategy = strategy
        self.cases = cases
        self.machine = machine
        self.quick = quick
        self.thorough = thorough if thorough is not None else quick * 20
        self.shards = shards
        self.clause = clause
        self.steps = steps
        self.exhaustive = exhaustive


def canon(obj):
    return json.dumps(obj, sort_keys=True, separators=(",", ":"), default=_json_default)


def _json_default(o):
    import numpy as np
    if isinstance(o, np.ndarray):
        return o.tolist()
    if isinstance(o, (np.integer,)):
        return int(o)
    if isinstance(o, (np.floating,)):
        return float(o)
    if isinstance(o, (np.bool_,)):
        return bool(o)
    if isinstance(o, (set, frozenset)):
        return sorted(o)
    if isinstance(o, tuple):
        return list(o)
    return repr(o)


def digest(obj):
    return hashlib.sha1(canon(obj).encode()).hexdigest()[:16]


class Ctx:
    """Per-shard context: tier, size bounds, counters."""

    def __init__(self, prop, sub, tier, seed, shard=0, nshards=1):
        self.prop = prop
        self.sub = sub
        self.tier = tier
        self.seed = seed
        self.shard = shard
        self.nshards = nshards
        self.evaluations = 0
        self.nontrivial = set()
        self.classes = collections.Counter()
        self.samples = {}
        self.counters = collections.Counter()
        self.replaying = False

    @property
    def thorough(self):
        return self.tier == "thorough"

    def pick(self, quick, thorough):
        return thorough if self.thorough else quick

    def record(self, case, classes=(), nontrivial=False):
        self.evaluations += 1
        for c in classes:
            self.classes[c] += 1
            if c not in self.samples and len(self.samples) < 12:
                self.samples[c] = case
        if not self.samples:
            self.samples["first"] = case
        if nontrivial:
            self.nontrivial.add(digest(case))

    def count(self, key, n=1):
        self.counters[key] += n

    def result(self):
        return dict(evaluations=self.evaluations, nontrivial=self.nontrivial, classes=self.classes,
                    samples=self.samples, counters=self.counters)


def derive_seed(seed, prop, sub, shard):
    h = hashlib.sha256(f"{seed}/{prop}/{sub}/{shard}".encode()).digest()
    return int.from_bytes(h[:8], "big")


def _touches_src(tb):
    while tb is not None:
        fn = os.path.abspath(tb.tb_frame.f_code.co_filename)
        if fn.startswith(SRC + os.sep):
            return True
        tb = tb.tb_next
    return False


CODE_ERRORS = (AssertionError, ArithmeticError, LookupError, TypeError, ValueError, AttributeError, OSError,
               StopIteration, RuntimeError, EOFError)


def as_violation(e, case):
    """An exception raised from inside the code under test on a valid case is a verdict; returns the Violation
    to raise, or None when the exception did not pass through the source tree (harness error)."""
    if isinstance(e, Violation):
        if e.case is None:
            e.case = case
        return e
    if isinstance(e, CODE_ERRORS) and _touches_src(e.__traceback__):
        tb = traceback.format_exception(type(e), e, e.__traceback__)
        return Violation(f"code under test raised {type(e).__name__}: {e}", case=case, detail="".join(tb[-6:]))
    return None


def guarded(body, ctx, case):
    """Run an oracle body.  Exceptions raised from inside the code under test on a generated (valid) case
    are verdicts, exceptions raised elsewhere are harness errors and propagate."""
    try:
        with warnings.catch_warnings():
            warnings.simplefilter("ignore")
            body(ctx, case)
    except Exception as e:
        v = as_violation(e, case)
        if v is None:
            raise
        if v is e:
            raise
        raise v from None


def _run_shard(args):
    modname, subname, tier, seed, shard, nshards, budget = args
    _setup_path()
    mod = importlib.import_module(modname)
    sub = next(s for s in mod.SUBCHECKS if s.name == subname)
    ctx = Ctx(mod.PROPERTY, sub.name, tier, seed, shard, nshards)
    t0 = time.time()
    failure = None
    try:
        if sub.kind == "hyp":
            failure = _run_hyp(sub, ctx, budget)
        elif sub.kind == "enum":
            failure = _run_enum(sub, ctx)
        elif sub.kind == "machine":
            failure = _run_machine(sub, ctx, budget)
        elif sub.kind == "fuzz":
            failure = _run_fuzz(sub, ctx, budget)
        else:
            raise RuntimeError(f"unknown kind {sub.kind}")
    except Exception as e:  # harness error
        return dict(sub=subname, shard=shard, harness_error="".join(
            traceback.format_exception(type(e), e, e.__traceback__)), **_pack(ctx), wall=time.time() - t0)
    return dict(sub=subname, shard=shard, failure=failure, **_pack(ctx), wall=time.time() - t0)


def _shard_child(job, conn):
    try:
        import faulthandler
        faulthandler.enable()          # a crash in native code leaves its Python stack on stderr
    except Exception:  # noqa: BLE001
        pass
    try:
        conn.send(_run_shard(job))
    finally:
        conn.close()


def _run_shard_fresh(job):
    """the same shard in a fresh interpreter (other address-space layout, nothing inherited from this process)"""
    import pickle
    import subprocess
    import tempfile
    fd, out = tempfile.mkstemp(prefix="twv-shard-", suffix=".pkl")
    os.close(fd)
    try:
        c = subprocess.run([sys.executable, "-X", "faulthandler", "-m", "twv", "--shard", json.dumps(list(job)), out],
                           cwd=VERIF, capture_output=True, text=True)
        if c.returncode == 0 and os.path.getsize(out) > 0:
            with open(out, "rb") as f:
                return pickle.load(f), None
        return None, f"exit code {c.returncode}; stderr tail: {c.stderr[-1500:]}"
    finally:
        try:
            os.unlink(out)
        except OSError:
            pass


def _run_jobs(jobs, nproc):
    """One forked process per shard (fresh state for every shard), at most `nproc` at a time.  A worker that dies
    without delivering its result (killed by the OOM killer, a crash in native code) is started once more; if it
    dies again the shard is reported as a harness error - the run never waits for a result that cannot come."""
    from multiprocessing.connection import wait as mp_wait
    ctxm = multiprocessing.get_context("fork")
    pending = [(i, job, 0) for i, job in enumerate(jobs)]
    running = {}
    results = [None] * len(jobs)

    def finish(i, res):
        p, r, job, attempt = running.pop(i)
        p.join(5)
        r.close()
        if res is None:
            code = p.exitcode
            if attempt == 0:
                pending.insert(0, (i, job, 1))
                return
            # died twice as a fork of this process: once more in a fresh interpreter
            res, why = _run_shard_fresh(job)
            if res is not None:
                results[i] = res
                return
            results[i] = dict(sub=job[1], shard=job[4], evaluations=0, nontrivial=[], classes={}, samples={}, counters={},
                              wall=0.0, harness_error=f"worker for {job[1]} shard {job[4]} died twice without a result "
                                                      f"(exit code {code}) and again in a fresh interpreter ({why})")
        else:
            results[i] = res

    while pending or running:
        while pending and len(running) < nproc:
            i, job, attempt = pending.pop(0)
            r, w = ctxm.Pipe(duplex=False)
            p = ctxm.Process(target=_shard_child, args=(job, w), daemon=False)
            p.start()
            w.close()
            running[i] = (p, r, job, attempt)
        mp_wait([v[1] for v in running.values()] + [v[0].sentinel for v in running.values()], timeout=1.0)
        for i in list(running):
            p, r, job, attempt = running[i]
            if r.poll():
                try:
                    res = r.recv()
                except (EOFError, OSError):
                    res = None
                finish(i, res)
            elif not p.is_alive():
                res = None
                if r.poll():
                    try:
                        res = r.recv()
                    except (EOFError, OSError):
                        res = None
                finish(i, res)
    return results


def _pack(ctx):
    r = ctx.result()
    return dict(evaluations=r["evaluations"], nontrivial=sorted(r["nontrivial"]), classes=dict(r["classes"]),
                samples=r["samples"], counters=dict(r["counters"]))


def _hyp_settings(n, steps=None):
    from hypothesis import settings, HealthCheck, Phase, Verbosity
    kw = dict(max_examples=n, database=None, deadline=None, derandomize=False, report_multiple_bugs=False,
              suppress_health_check=list(HealthCheck), phases=[Phase.generate, Phase.shrink],
              verbosity=Verbosity.quiet, print_blob=False)
    if steps is not None:
        kw["stateful_step_count"] = steps
    return settings(**kw)


def limit_shrinking(ctx):
    """Hypothesis caps shrinking at 300 s; the cap is a module constant.  A lower cap only makes the reported
    reproduction less minimal (the verdict is reached before shrinking starts), and keeps a failing run short."""
    import hypothesis.internal.conjecture.engine as eng
    eng.MAX_SHRINKING_SECONDS = int(os.environ.get("TWV_SHRINK_SECONDS", "60" if ctx.thorough else "12"))


def _run_hyp(sub, ctx, budget):
    from hypothesis import given, seed
    strat = sub.strategy(ctx)
    box = {}
    limit_shrinking(ctx)

    sticky = {}

    @seed(derive_seed(ctx.seed, ctx.prop, sub.name, ctx.shard))
    @_hyp_settings(budget)
    @given(strat)
    def test(case):
        # a verdict once reached for a case stands: code under test that keeps state between calls can pass the
        # very same case on re-execution, which Hypothesis would report as flakiness instead of the violation
        key = digest(case)
        if key in sticky:
            raise sticky[key]
        try:
            guarded(sub.body, ctx, case)
        except Violation as v:
            box["v"] = v
            sticky[key] = v
            raise

    try:
        test()
    except Violation as v:
        v = box.get("v", v)
        return dict(msg=v.msg, case=v.case, detail=v.detail)
    except Exception as e:
        import hypothesis.errors as herr
        if isinstance(e, herr.Flaky) and "v" in box:
            # inconsistent behaviour of the code under test across executions: the observed violation is real
            v = box["v"]
            return dict(msg=v.msg + " [not reproduced on re-execution: behaviour depends on earlier calls]",
                        case=v.case, detail=v.detail)
        raise
    return None


def _run_enum(sub, ctx):
    for case in sub.cases(ctx, ctx.shard, ctx.nshards):
        try:
            guarded(sub.body, ctx, case)
        except Violation as v:
            return dict(msg=v.msg, case=v.case, detail=v.detail)
    return None


def _run_machine(sub, ctx, budget):
    from hypothesis import seed
    from hypothesis.stateful import run_state_machine_as_test
    machine = sub.machine(ctx)
    box = {}
    machine._twv_box = box
    steps = sub.steps[1] if ctx.thorough else sub.steps[0]
    limit_shrinking(ctx)
    try:
        run_state_machine_as_test(seed(derive_seed(ctx.seed, ctx.prop, sub.name, ctx.shard))(machine),
                                  settings=_hyp_settings(budget, steps))
    except Violation as v:
        v = box.get("v", v)
        return dict(msg=v.msg, case=v.case, detail=v.detail)
    except Exception as e:
        import hypothesis.errors as herr
        last = None
        for modname in ("twv.props.c08", "twv.progmachine"):
            m = sys.modules.get(modname)
            for cname in ("DomainSession", "ProgramSession"):
                cls = getattr(m, cname, None) if m else None
                if cls is not None and getattr(cls, "last_violation", None) is not None:
                    last = cls.last_violation
        if isinstance(e, herr.Flaky) and last is not None:
            return dict(msg=last.msg + " [not reproduced on re-execution: behaviour depends on earlier calls]",
                        case=last.case, detail=last.detail)
        raise
    return None


def _run_fuzz(sub, ctx, budget):
    """Coverage-guided campaign (atheris / libFuzzer) in a subprocess: `budget` executions, libFuzzer seed derived
    from VERIF_SEED, empty starting corpus in a scratch directory that is removed afterwards.  The semantic oracle
    is inside the target (sub.machine names the module); a disagreement comes back as a JSON case."""
    import shutil
    import subprocess
    import tempfile
    try:
        import atheris  # noqa: F401
    except ImportError:
        ctx.count("fuzz-engine-unavailable")
        return None
    tmp = tempfile.mkdtemp(prefix="twv-fuzz-")
    try:
        out = os.path.join(tmp, "case.json")
        corpus = os.path.join(tmp, "corpus")
        os.makedirs(corpus)
        seed = derive_seed(ctx.seed, ctx.prop, sub.name, ctx.shard) % (2 ** 31 - 1) + 1
        env = dict(os.environ, PYTHONHASHSEED="0")
        cmd = [sys.executable, "-m", sub.machine, out, f"-runs={budget}", f"-seed={seed}", "-max_len=256",
               "-print_final_stats=1", f"-artifact_prefix={tmp}/", corpus]
        p = subprocess.run(cmd, cwd=VERIF, env=env, capture_output=True, text=True)
        stats = {}
        if os.path.exists(out + ".stats"):
            with open(out + ".stats") as f:
                stats = json.load(f)
        execs = None
        for line in p.stderr.splitlines():
            if line.startswith("stat::number_of_executed_units:"):
                execs = int(line.split(":")[-1])
            if line.startswith("stat::new_units_added:"):
                ctx.count("corpus-units-added", int(line.split(":")[-1]))
        n = execs if execs is not None else stats.get("execs", 0)
        ctx.evaluations += n
        # distinct non-trivial inputs cannot be counted exactly without keeping them all: count conservatively the
        # corpus units libFuzzer kept (each has distinct coverage) that the target classified as non-trivial
        for i in range(min(stats.get("nontrivial", 0), ctx.counters.get("corpus-units-added", 0))):
            ctx.nontrivial.add(f"fuzz-{ctx.shard}-{i}")
        for c, v in stats.get("classes", {}).items():
            ctx.classes[c] += v
        for i, smp in enumerate(stats.get("samples", [])[:2]):
            ctx.samples.setdefault(f"fuzz-sample-{i}", smp)
        if os.path.exists(out):
            with open(out) as f:
                case = json.load(f)
            msg = case.pop("message", "disagreement")
            return dict(msg=msg, case=case, detail=None)
        if p.returncode != 0:
            raise RuntimeError(f"fuzz target exited {p.returncode} without a case:\n{p.stderr[-1500:]}")
        return None
    finally:
        shutil.rmtree(tmp, ignore_errors=True)


# ---------------------------------------------------------------------------------------------------------

def load_known(prop):
    path = os.path.join(VERIF, "known_findings.json")
    if not os.path.exists(path):
        return []
    with open(path) as f:
        data = json.load(f)
    return [e for e in data.get("findings", []) if e.get("property") == prop]


def _regressions(prop):
    d = os.path.join(VERIF, "regressions")
    if not os.path.isdir(d):
        return []
    return sorted(os.path.join(d, f) for f in os.listdir(d) if f.startswith(prop + "-") and f.endswith(".json"))


def replay_file(mod, path, ctx=None):
    with open(path) as f:
        rec = json.load(f)
    sub = next(s for s in mod.SUBCHECKS if s.name == rec["subcheck"])
    ctx = ctx or Ctx(mod.PROPERTY, sub.name, "quick", 0)
    ctx.replaying = True
    try:
        guarded(sub.body, ctx, rec["case"])
    except Violation as v:
        return dict(msg=v.msg, case=rec["case"], detail=v.detail, sub=sub.name)
    return None


def write_replay(prop, subname, failure):
    d = os.path.join(VERIF, "replays")
    os.makedirs(d, exist_ok=True)
    rec = dict(property=prop, subcheck=subname, case=failure["case"], message=failure["msg"],
               detail=failure.get("detail"))
    text = json.dumps(rec, indent=1, sort_keys=True, default=_json_default)
    name = f"{prop}-{subname}-{hashlib.sha1(canon(failure['case']).encode()).hexdigest()[:10]}.json"
    path = os.path.join(d, name)
    with open(path, "w") as f:
        f.write(text + "\n")
    return os.path.relpath(path, VERIF)


def main(argv=None):
    argv = list(sys.argv[1:] if argv is None else argv)
    if not argv:
        print("usage: check <ID> quick|thorough | check <ID> --replay <file>")
        return 2
    if argv[0] == "--shard":
        # internal: one shard in a fresh interpreter (see _run_shard_fresh); result pickled to argv[2]
        import pickle
        res = _run_shard(tuple(json.loads(argv[1])))
        with open(argv[2], "wb") as f:
            pickle.dump(res, f)
        return 0
    prop = argv[0].upper()
    modname = f"twv.props.{prop.lower()}"
    t0 = time.time()
    try:
        mod = importlib.import_module(modname)
    except Exception as e:
        if _touches_src(e.__traceback__) or isinstance(e, ImportError) and "traffic_weaver" in str(e):
            # the tree does not even import: every property is violated in the trivial way
            print(f"HARNESS-ERROR property={prop} import failed: {type(e).__name__}: {e}")
        else:
            print(f"HARNESS-ERROR property={prop} {type(e).__name__}: {e}")
        traceback.print_exc()
        return 2

    if len(argv) >= 3 and argv[1] == "--replay":
        path = argv[2] if os.path.isabs(argv[2]) else os.path.join(VERIF, argv[2])
        try:
            fail = replay_file(mod, path)
        except Exception:
            print(f"HARNESS-ERROR property={prop} replay crashed")
            traceback.print_exc()
            return 2
        if fail:
            print(f"replay reproduces: {fail['msg']}")
            if fail.get("detail"):
                print(fail["detail"])
            print(f"VIOLATION property={prop} replay={os.path.relpath(path, VERIF)}")
            return 1
        print(f"replay passes: property={prop} {os.path.relpath(path, VERIF)}")
        return 0

    tier = argv[1] if len(argv) > 1 else os.environ.get("VERIF_TIER", "quick")
    if tier not in ("quick", "thorough"):
        print(f"unknown tier {tier}")
        return 2
    seed = int(os.environ.get("VERIF_SEED", "1") or "1")
    only = os.environ.get("TWV_ONLY")
    subs = [s for s in mod.SUBCHECKS if not only or s.name in only.split(",")]

    violations = []       # (subname, failure)
    harness_errors = []
    known_lines = []

    # 1. known findings: deterministic witnesses
    known = load_known(prop)
    witnesses = getattr(mod, "WITNESSES", {})
    for e in known:
        if e.get("status") != "known":
            continue
        w = witnesses.get(e["id"])
        if w is None:
            harness_errors.append(f"known finding {e['id']} has no witness in {modname}")
            continue
        try:
            with warnings.catch_warnings():
                warnings.simplefilter("ignore")
                still, text = w()
        except Exception as exc:
            if isinstance(exc, CODE_ERRORS) and _touches_src(exc.__traceback__):
                # the listed input still fails inside the code under test, only in another form than recorded
                still, text = True, f"the witness input now raises {type(exc).__name__}: {exc}"
            else:
                harness_errors.append(f"witness {e['id']} crashed:\n{traceback.format_exc()}")
                continue
        if still:
            known_lines.append(f"KNOWN-FINDING: property={prop} {e['id']}: {e['what']} [{text}]")

    # 2. regression replays (fixed defects and earlier shrunk failures), executed without Hypothesis
    reg_ctx_results = []
    n_reg = 0
    for path in _regressions(prop):
        try:
            with open(path) as f:
                sname = json.load(f)["subcheck"]
            if only and sname not in only.split(","):
                continue
            ctx = Ctx(prop, sname, tier, seed)
            fail = replay_file(mod, path, ctx)
            reg_ctx_results.append(dict(sub=sname, shard=-1, **_pack(ctx), wall=0.0))
            n_reg += 1
        except Exception:
            harness_errors.append(f"regression {path} crashed:\n{traceback.format_exc()}")
            continue
        if fail:
            fail["replay"] = os.path.relpath(path, VERIF)
            violations.append((fail["sub"], fail))

    # 3. generated search
    jobs = []
    for s in subs:
        if s.kind == "enum":
            nsh = max(1, min(s.shards, NPROC))
            budget = 0
        elif tier == "quick":
            nsh = max(1, min(s.shards, NPROC // max(1, len(subs))))
            budget = -(-int(s.quick * QUICK_SCALE) // nsh)
        else:
            nsh = max(1, min(s.shards, NPROC))
            budget = -(-int(s.thorough * THOROUGH_SCALE) // nsh)
        for sh in range(nsh):
            jobs.append((modname, s.name, tier, seed, sh, nsh, budget))
    results = []
    if jobs:
        nproc = min(NPROC, len(jobs))
        if nproc <= 1 or os.environ.get("TWV_SERIAL"):
            results = [_run_shard(j) for j in jobs]
        else:
            results = _run_jobs(jobs, nproc)

    per_sub = collections.OrderedDict()
    for r in reg_ctx_results + results:
        a = per_sub.setdefault(r["sub"], dict(evaluations=0, nontrivial=set(), classes=collections.Counter(),
                                              samples={}, counters=collections.Counter(), wall=0.0, shards=0))
        a["evaluations"] += r["evaluations"]
        a["nontrivial"].update(r["nontrivial"])
        a["classes"].update(r["classes"])
        a["counters"].update(r["counters"])
        a["wall"] = max(a["wall"], r.get("wall", 0.0))
        a["shards"] += 1 if r["shard"] >= 0 else 0
        for k, v in r["samples"].items():
            if len(a["samples"]) < 8:
                a["samples"].setdefault(k, v)
        if r.get("harness_error"):
            harness_errors.append(f"[{r['sub']} shard {r['shard']}]\n{r['harness_error']}")
        if r.get("failure"):
            violations.append((r["sub"], r["failure"]))

    # 4. classify failures against the known-findings list
    matcher = getattr(mod, "matches_known", None)
    new_violations = []
    seen = set()
    # one (the smallest) failure per sub-check: shards of one sub-check usually hit the same root cause
    best = {}
    for sname, fail in violations:
        size = len(canon(fail.get("case")))
        if sname not in best or size < best[sname][0]:
            best[sname] = (size, fail)
    violations = [(sname, f) for sname, (_, f) in best.items()]
    for sname, fail in violations:
        key = (sname, canon(fail.get("case")))
        if key in seen:
            continue
        seen.add(key)
        kid = None
        if matcher is not None:
            try:
                kid = matcher(sname, fail)
            except Exception:
                kid = None
        if kid is not None and any(e["id"] == kid and e.get("status") == "known" for e in known):
            known_lines.append(f"KNOWN-FINDING: property={prop} {kid}: generated case inside the listed region "
                               f"({sname}: {fail['msg'][:120]})")
            continue
        if "replay" not in fail:
            fail["replay"] = write_replay(prop, sname, fail)
        new_violations.append((sname, fail))

    # 5. evidence
    wall = time.time() - t0
    total_eval = sum(a["evaluations"] for a in per_sub.values())
    nontrivial_all = set()
    for sname, a in per_sub.items():
        nontrivial_all.update(f"{sname}:{d}" for d in a["nontrivial"])
    samples = []
    for sname, a in per_sub.items():
        for cls, case in list(a["samples"].items())[:3]:
            samples.append(dict(subcheck=sname, cls=cls, case=_shorten(case)))
    exhaustive_subs = [s.name for s in subs if s.exhaustive]
    evidence = dict(
        property_id=prop, tier=tier, seed=seed, level=mod.LEVEL,
        coverage=dict(
            evaluations=total_eval,
            distinct_nontrivial=len(nontrivial_all),
            rule=mod.RULE,
            samples=samples[:40],
            exhaustive=bool(exhaustive_subs) and len(exhaustive_subs) == len(subs),
            exhaustive_subchecks=exhaustive_subs,
            regressions_replayed=n_reg,
            subchecks={sname: dict(evaluations=a["evaluations"], distinct_nontrivial=len(a["nontrivial"]),
                                   shards=a["shards"], class_histogram=dict(sorted(a["classes"].items())),
                                   counters=dict(sorted(a["counters"].items())), wall_s=round(a["wall"], 2),
                                   clause=next((s.clause for s in subs if s.name == sname), ""))
                       for sname, a in per_sub.items()},
            known_findings_reported=known_lines,
            source_tree=SRC,
        ),
        assumptions=list(getattr(mod, "ASSUMPTIONS", [])),
        wall_s=round(wall, 2),
        violations=len(new_violations),
    )
    if not os.environ.get("TWV_NO_EVIDENCE"):
        os.makedirs(os.path.join(VERIF, "evidence"), exist_ok=True)
        with open(os.path.join(VERIF, "evidence", f"{prop}.json"), "w") as f:
            json.dump(evidence, f, indent=1, sort_keys=True, default=_json_default)
            f.write("\n")

    # 6. report
    for line in known_lines:
        print(line)
    for sname, a in per_sub.items():
        print(f"  {prop}.{sname}: evaluations={a['evaluations']} distinct_nontrivial={len(a['nontrivial'])} "
              f"shards={a['shards']} wall={a['wall']:.1f}s")
    if harness_errors:
        for h in harness_errors[:3]:
            print(f"HARNESS-ERROR property={prop} {h[-3000:]}")
        if len(harness_errors) > 3:
            print(f"... and {len(harness_errors) - 3} more harness errors")
        return 2
    if new_violations:
        for sname, fail in new_violations:
            print(f"--- {prop}.{sname}: {fail['msg']}")
            if fail.get("detail"):
                print(str(fail["detail"])[:2000])
            print(f"VIOLATION property={prop} replay={fail['replay']}")
        return 1
    print(f"OK property={prop} tier={tier} seed={seed} evaluations={total_eval} "
          f"distinct_nontrivial={len(nontrivial_all)} wall={wall:.1f}s")
    return 0


def _shorten(case, limit=1500):
    text = canon(case)
    if len(text) <= limit:
        return case
    return dict(truncated=text[:limit] + "...")


if __name__ == "__main__":
    sys.exit(main())
