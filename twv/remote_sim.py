"""Fake transport, step-boundary hooks and crash/schedule control for the remote dataset loader (C18, C19).

Nothing in /repo is modified: the harness replaces module globals of traffic_weaver.datasets._base for the
duration of a `Sim` context (urlretrieve, time, np, pickle, os, TemporaryDirectory, _sha256, _fetch_remote)
and restores them afterwards.  Every replaced object forwards to the real one; the wrappers only call
`sim.boundary(name)` before / after, which is where crashes are injected and schedules are interleaved."""
import contextlib
import gzip as gzip_mod
import hashlib
import io
import os
import pickle as real_pickle
import shutil
import tempfile
import types
import urllib.error

import numpy as real_np

import traffic_weaver.datasets._base as base

BOUNDARIES = ["download:before", "download:within", "download:after", "verify:after", "parse:after",
              "pickle:before", "pickle:within", "pickle:after", "rename:before", "rename:after",
              "cleanup:before", "cleanup:within", "cleanup:after", "retry:sleep"]


def csv_payload(rows):
    """rows: list of (x, y) floats -> bytes of a 2-column CSV"""
    return "".join(f"{repr(float(a))},{repr(float(b))}\n" for a, b in rows).encode()


def parse_payload(data):
    return real_np.loadtxt(io.BytesIO(data), delimiter=",", dtype=real_np.float64, ndmin=2)


def sha(data):
    return hashlib.sha256(data).hexdigest()


class NetworkDown(urllib.error.URLError):
    def __init__(self):
        super().__init__("network is down (fake transport)")


EXC = {
    "URLError": lambda: urllib.error.URLError("temporary failure in name resolution"),
    "HTTPError": lambda: urllib.error.HTTPError("http://x", 503, "Service Unavailable", None, None),
    "TimeoutError": lambda: TimeoutError("timed out"),
    "socket.timeout": lambda: __import__("socket").timeout("timed out"),
    "ContentTooShort": lambda: urllib.error.ContentTooShortError("retrieval incomplete", None),
    "ValueError": lambda: ValueError("unknown url type"),
    "ConnectionResetError": lambda: ConnectionResetError("connection reset by peer"),
}
RETRYABLE = {"URLError", "HTTPError", "TimeoutError", "socket.timeout", "ContentTooShort"}


def exc_name(step):
    """'URLError' or 'URLError@partial' (raised after part of the body was written) -> 'URLError'; else None"""
    name = step.split("@")[0]
    return name if name in EXC else None


class Sim:
    """Context manager installing the fake environment.

    transport(url, path, sim) -> writes the file or raises.  `boundary(name)` is a user hook."""

    def __init__(self, transport, boundary=None, sha_override=None):
        self.transport = transport
        self.boundary_hook = boundary
        self.sha_override = sha_override
        self.calls = []          # urls requested
        self.remotes = []        # RemoteFileMetadata seen by _fetch_remote
        self.current_remote = {}
        self._saved = {}

    def boundary(self, name):
        if self.boundary_hook is not None:
            self.boundary_hook(name)

    # -- replacements ---------------------------------------------------------------------------------------------------
    def _urlretrieve(self, url, filename=None, *a, **k):
        self.calls.append(url)
        self.boundary("download:before")
        self.transport(url, filename, self)
        self.boundary("download:after")
        return filename, None

    def _sha256(self, path):
        if self.sha_override is not None:
            out = self.sha_override(path, self)
            if out is None:
                out = self._real_sha256(path)
        else:
            out = self._real_sha256(path)
        self.boundary("verify:after")
        return out

    def _fetch_remote(self, remote, *a, **k):
        import threading
        self.remotes.append(remote)
        self.current_remote[threading.get_ident()] = remote
        return self._real_fetch_remote(remote, *a, **k)

    def __enter__(self):
        sim = self
        g = base.__dict__
        for name in ("urlretrieve", "time", "np", "pickle", "os", "TemporaryDirectory", "_sha256", "_fetch_remote"):
            self._saved[name] = g[name]
        self._real_sha256 = g["_sha256"]
        self._real_fetch_remote = g["_fetch_remote"]
        real_os = g["os"]

        class NpProxy:
            def __getattr__(self, item):
                return getattr(real_np, item)

            @staticmethod
            def loadtxt(*a, **k):
                out = real_np.loadtxt(*a, **k)
                sim.boundary("parse:after")
                return out

        class PickleProxy:
            def __getattr__(self, item):
                return getattr(real_pickle, item)

            @staticmethod
            def dump(obj, f, *a, **k):
                sim.boundary("pickle:before")
                data = real_pickle.dumps(obj, *a, **k)
                half = len(data) // 2
                f.write(data[:half])
                f.flush()
                sim.boundary("pickle:within")
                f.write(data[half:])          # not flushed here: closing / flushing is the loader's business
                sim.boundary("pickle:after")

        class OsProxy:
            def __getattr__(self, item):
                return getattr(real_os, item)

            @staticmethod
            def rename(a, b, *aa, **k):
                sim.boundary("rename:before")
                real_os.rename(a, b, *aa, **k)
                sim.boundary("rename:after")

        class TmpDir(tempfile.TemporaryDirectory):
            def __exit__(self, exc, value, tb):
                sim.boundary("cleanup:before")
                # remove the files one by one so that a crash can fall between them
                try:
                    names = sorted(real_os.listdir(self.name))
                except OSError:
                    names = []
                for i, n in enumerate(names):
                    p = real_os.path.join(self.name, n)
                    if real_os.path.isfile(p):
                        real_os.unlink(p)
                        if i == 0:
                            sim.boundary("cleanup:within")
                if not names:
                    sim.boundary("cleanup:within")
                out = super().__exit__(exc, value, tb)
                sim.boundary("cleanup:after")
                return out

        g["urlretrieve"] = self._urlretrieve
        g["time"] = types.SimpleNamespace(sleep=lambda s: sim.boundary("retry:sleep"))
        g["np"] = NpProxy()
        g["pickle"] = PickleProxy()
        g["os"] = OsProxy()
        g["TemporaryDirectory"] = TmpDir
        g["_sha256"] = self._sha256
        g["_fetch_remote"] = self._fetch_remote
        return self

    def __exit__(self, *exc):
        g = base.__dict__
        for name, val in self._saved.items():
            g[name] = val
        return False


@contextlib.contextmanager
def scratch_env():
    """Scratch data home + scratch HOME; restores the environment and removes the directory afterwards."""
    root = tempfile.mkdtemp(prefix="twv-data-")
    home = os.path.join(root, "home")
    data = os.path.join(root, "data")
    os.makedirs(home)
    saved = {k: os.environ.get(k) for k in ("TRAFFIC_WEAVER_DATA", "HOME")}
    os.environ["TRAFFIC_WEAVER_DATA"] = data
    os.environ["HOME"] = home
    try:
        yield types.SimpleNamespace(root=root, home=home, data=data)
    finally:
        for k, v in saved.items():
            if v is None:
                os.environ.pop(k, None)
            else:
                os.environ[k] = v
        shutil.rmtree(root, ignore_errors=True)


def tree(path):
    out = []
    for d, dirs, files in os.walk(path):
        for f in files:
            out.append(os.path.relpath(os.path.join(d, f), path))
    return sorted(out)


def write_file(path, data, sim=None, chunked=False):
    with open(path, "wb") as f:
        if chunked and sim is not None and len(data) > 1:
            half = len(data) // 2
            f.write(data[:half])
            f.flush()
            sim.boundary("download:within")
            f.write(data[half:])
        else:
            f.write(data)
            if sim is not None:
                f.flush()
                sim.boundary("download:within")


def scripted_transport(script, payloads):
    """script: list of step names consumed one per call: an exception name from EXC, or 'good' / 'corrupted' /
    'truncated' / 'empty' / 'down'.  payloads: dict url -> bytes (or a single bytes for any url)."""
    state = dict(i=0)

    def transport(url, path, sim):
        i = state["i"]
        state["i"] += 1
        step = script[i] if i < len(script) else "down"
        data = payloads[url] if isinstance(payloads, dict) else payloads
        if step == "down":
            raise NetworkDown()
        if step in EXC:
            raise EXC[step]()
        if exc_name(step):
            # the connection breaks in the middle of the body: urlretrieve has already written part of the file
            with open(path, "wb") as f:
                f.write(data[:max(1, len(data) // 2)])
            sim.boundary("download:within")
            raise EXC[exc_name(step)]()
        if step == "corrupted":
            data = bytes([data[0] ^ 1]) + data[1:] if data else b"x"
        elif step == "truncated":
            data = data[:max(1, len(data) // 2)]
        elif step == "empty":
            data = b""
        write_file(path, data, sim, chunked=True)
    transport.state = state
    return transport


def gz(data, members=1):
    """gzip stream of `data`; members > 1 splits it at line boundaries into a multi-member stream (valid gzip:
    every reader has to concatenate the members)"""
    if members > 1:
        lines = data.splitlines(keepends=True)
        if len(lines) >= members:
            step = -(-len(lines) // members)
            return b"".join(gz(b"".join(lines[i:i + step])) for i in range(0, len(lines), step))
    buf = io.BytesIO()
    with gzip_mod.GzipFile(fileobj=buf, mode="wb", mtime=0) as f:
        f.write(data)
    return buf.getvalue()


def read_cache(path):
    """Returns ('absent', None) | ('complete', ndarray) | ('corrupt', reason)"""
    if not os.path.exists(path):
        return "absent", None
    try:
        with open(path, "rb") as f:
            obj = real_pickle.load(f)
    except Exception as e:  # noqa: BLE001
        return "corrupt", f"{type(e).__name__}: {e}"
    if not isinstance(obj, real_np.ndarray):
        return "corrupt", f"unpickles to {type(obj).__name__}"
    return "complete", obj
