"""Fake transport, step-boundary hooks and crash/schedule control for the remote dataset loader (C18, C19).

Nothing in /repo is modified: the harness replaces module globals of traffic_weaver.datasets._base for the
duration of a `Sim` context (urlretrieve / urlopen, time, np, pickle, os, TemporaryDirectory, _sha256, sha256,
_fetch_remote - those that exist) as well as urllib.request.urlretrieve / urlopen and hashlib.sha256, and restores
them afterwards: the loader may fetch and verify in any of these ways.  Every replaced object forwards to the real one; the wrappers only call
`sim.boundary(name)` before / after, which is where crashes are injected and schedules are interleaved."""
import contextlib
import gzip as gzip_mod
import hashlib
import io
import os
import pickle as real_pickle
import shutil
import tempfile
import types
import urllib.error

import numpy as real_np

import traffic_weaver.datasets._base as base

BOUNDARIES = ["download:before", "download:within", "download:after", "verify:after", "parse:after",
              "pickle:before", "pickle:within", "pickle:after", "rename:before", "rename:after",
              "cleanup:before", "cleanup:within", "cleanup:after", "retry:sleep"]


def csv_payload(rows):
    """rows: list of (x, y) floats -> bytes of a 2-column CSV"""
    return "".join(f"{repr(float(a))},{repr(float(b))}\n" for a, b in rows).encode()


def parse_payload(data):
    return real_np.loadtxt(io.BytesIO(data), delimiter=",", dtype=real_np.float64, ndmin=2)


def sha(data):
    return hashlib.sha256(data).hexdigest()


class Unobservable(RuntimeError):
    """the harness cannot observe / steer this implementation (exit 2, never a verdict)"""


class NetworkDown(urllib.error.URLError):
    def __init__(self):
        super().__init__("network is down (fake transport)")


EXC = {
    "URLError": lambda: urllib.error.URLError("temporary failure in name resolution"),
    "HTTPError": lambda: urllib.error.HTTPError("http://x", 503, "Service Unavailable", None, None),
    "TimeoutError": lambda: TimeoutError("timed out"),
    "socket.timeout": lambda: __import__("socket").timeout("timed out"),
    "ContentTooShort": lambda: urllib.error.ContentTooShortError("retrieval incomplete", None),
    "ValueError": lambda: ValueError("unknown url type"),
    "ConnectionResetError": lambda: ConnectionResetError("connection reset by peer"),
}
RETRYABLE = {"URLError", "HTTPError", "TimeoutError", "socket.timeout", "ContentTooShort"}


def exc_name(step):
    """'URLError' or 'URLError@partial' (raised after part of the body was written) -> 'URLError'; else None"""
    name = step.split("@")[0]
    return name if name in EXC else None


class Sim:
    """Context manager installing the fake environment.

    transport(url, path, sim) -> writes the file or raises.  `boundary(name)` is a user hook."""

    def __init__(self, transport, boundary=None, sha_override=None):
        self.transport = transport
        self.boundary_hook = boundary
        self.sha_override = sha_override
        self.calls = []          # urls requested
        self.remotes = []        # RemoteFileMetadata seen by _fetch_remote
        self.current_remote = {}
        self._saved = {}

    def boundary(self, name):
        if self.boundary_hook is not None:
            self.boundary_hook(name)

    # -- replacements ---------------------------------------------------------------------------------------------------
    def _urlretrieve(self, url, filename=None, *a, **k):
        self.calls.append(url)
        self.boundary("download:before")
        self.transport(url, filename, self)
        self.boundary("download:after")
        return filename, None

    def _urlopen(self, req, *a, **k):
        """urllib.request.urlopen stand-in: the scripted transport writes into a scratch file, the response serves it;
        a transport that failed after writing part of the body raises its error when the written part has been read"""
        url = getattr(req, "full_url", req)
        self.calls.append(url)
        self.boundary("download:before")
        fd, tmp = tempfile.mkstemp(prefix="twv-resp-")
        os.close(fd)
        err = None
        try:
            try:
                self.transport(url, tmp, self)
            except Exception as e:  # noqa: BLE001
                err = e
            with open(tmp, "rb") as f:
                data = f.read()
        finally:
            os.unlink(tmp)
        if err is not None and not data:
            raise err
        return _FakeResponse(url, data, err, self)

    def _sha_bytes(self, data):
        """checksum override by content (C18's checksum table) for code that hashes with hashlib itself"""
        if self.sha_override is None:
            return None
        fd, tmp = tempfile.mkstemp(prefix="twv-sha-")
        try:
            with os.fdopen(fd, "wb") as f:
                f.write(data)
            return self.sha_override(tmp, self)
        finally:
            os.unlink(tmp)

    def _sha256(self, path):
        self.sha_consulted = getattr(self, "sha_consulted", 0) + 1
        if self.sha_override is not None:
            out = self.sha_override(path, self)
            if out is None:
                out = self._real_sha256(path)
        else:
            out = self._real_sha256(path)
        self.boundary("verify:after")
        return out

    def _fetch_remote(self, remote, *a, **k):
        import threading
        self.remotes.append(remote)
        self.current_remote[threading.get_ident()] = remote
        return self._real_fetch_remote(remote, *a, **k)

    def __enter__(self):
        sim = self
        g = base.__dict__
        import hashlib as _hashlib
        import urllib.request as _ur
        for name in ("urlretrieve", "urlopen", "time", "np", "pickle", "os", "TemporaryDirectory", "_sha256", "sha256",
                     "_fetch_remote"):
            if name in g:
                self._saved[name] = g[name]
        self._saved_mod = [(_ur, "urlretrieve", _ur.urlretrieve), (_ur, "urlopen", _ur.urlopen),
                           (_hashlib, "sha256", _hashlib.sha256), (_hashlib, "new", _hashlib.new)]
        real_new = _hashlib.new
        self._real_sha256 = g.get("_sha256")
        self._real_fetch_remote = g.get("_fetch_remote")
        real_os = g.get("os", os)
        real_sha = _hashlib.sha256
        own_verify_boundary = "_sha256" not in g
        self.sha_consulted = 0

        class FakeSha:
            """hashlib.sha256 stand-in: the real digest unless the checksum table knows the content"""
            name, digest_size, block_size = "sha256", 32, 64

            def __init__(self, data=b"", **kw):
                self._h = real_sha(data)
                self._buf = bytearray(data)

            def update(self, b):
                self._h.update(b)
                self._buf += bytes(b)

            def copy(self):
                c = FakeSha()
                c._h, c._buf = self._h.copy(), bytearray(self._buf)
                return c

            def hexdigest(self):
                sim.sha_consulted += 1
                out = sim._sha_bytes(bytes(self._buf)) or self._h.hexdigest()
                if own_verify_boundary:
                    sim.boundary("verify:after")
                return out

            def digest(self):
                return bytes.fromhex(self.hexdigest())

        class NpProxy:
            def __getattr__(self, item):
                return getattr(real_np, item)

            @staticmethod
            def loadtxt(*a, **k):
                out = real_np.loadtxt(*a, **k)
                sim.boundary("parse:after")
                return out

        class PickleProxy:
            def __getattr__(self, item):
                return getattr(real_pickle, item)

            @staticmethod
            def dump(obj, f, *a, **k):
                sim.boundary("pickle:before")
                data = real_pickle.dumps(obj, *a, **k)
                half = len(data) // 2
                f.write(data[:half])
                f.flush()
                sim.boundary("pickle:within")
                f.write(data[half:])          # not flushed here: closing / flushing is the loader's business
                sim.boundary("pickle:after")

        class OsProxy:
            def __getattr__(self, item):
                return getattr(real_os, item)

            @staticmethod
            def rename(a, b, *aa, **k):
                sim.boundary("rename:before")
                real_os.rename(a, b, *aa, **k)
                sim.boundary("rename:after")

            @staticmethod
            def replace(a, b, *aa, **k):          # the other way of publishing a file atomically
                sim.boundary("rename:before")
                real_os.replace(a, b, *aa, **k)
                sim.boundary("rename:after")

        class TmpDir(tempfile.TemporaryDirectory):
            def __exit__(self, exc, value, tb):
                sim.boundary("cleanup:before")
                # remove the files one by one so that a crash can fall between them
                try:
                    names = sorted(real_os.listdir(self.name))
                except OSError:
                    names = []
                for i, n in enumerate(names):
                    p = real_os.path.join(self.name, n)
                    if real_os.path.isfile(p):
                        real_os.unlink(p)
                        if i == 0:
                            sim.boundary("cleanup:within")
                if not names:
                    sim.boundary("cleanup:within")
                out = super().__exit__(exc, value, tb)
                sim.boundary("cleanup:after")
                return out

        repl = dict(urlretrieve=self._urlretrieve, urlopen=self._urlopen,
                    time=types.SimpleNamespace(sleep=lambda s: sim.boundary("retry:sleep"), time=__import__("time").time,
                                               monotonic=__import__("time").monotonic),
                    np=NpProxy(), pickle=PickleProxy(), os=OsProxy(), TemporaryDirectory=TmpDir, _sha256=self._sha256,
                    sha256=FakeSha, _fetch_remote=self._fetch_remote)
        for name in self._saved:
            g[name] = repl[name]
        _ur.urlretrieve, _ur.urlopen, _hashlib.sha256 = self._urlretrieve, self._urlopen, FakeSha

        def fake_new(name, data=b"", **kw):
            if str(name).lower().replace("-", "") == "sha256":
                return FakeSha(data)
            return real_new(name, data, **kw)
        _hashlib.new = fake_new
        return self

    def __exit__(self, *exc):
        g = base.__dict__
        for name, val in self._saved.items():
            g[name] = val
        for mod, name, val in self._saved_mod:
            setattr(mod, name, val)
        return False


class _FakeResponse:
    """what urlopen returns: file-like, context manager, headers with the announced length"""

    def __init__(self, url, data, err, sim):
        self.url, self._data, self._err, self._sim, self._pos = url, data, err, sim, 0
        self.status = self.code = 200
        announced = len(data) * 2 if err is not None else len(data)
        self.headers = {"Content-Length": str(announced), "content-length": str(announced)}
        self._done = False

    def read(self, n=-1):
        if self._pos >= len(self._data):
            if self._err is not None:
                err, self._err = self._err, None
                raise err
            if not self._done:
                self._done = True
                self._sim.boundary("download:after")
            return b""
        if n is None or n < 0:
            n = len(self._data) - self._pos
        out = self._data[self._pos:self._pos + n]
        self._pos += len(out)
        if (n is None or self._pos >= len(self._data)) and self._err is not None and out:
            return out
        return out

    def readinto(self, b):
        chunk = self.read(len(b))
        b[:len(chunk)] = chunk
        return len(chunk)

    def info(self):
        return self.headers

    def getheader(self, name, default=None):
        return self.headers.get(name, default)

    def geturl(self):
        return self.url

    def close(self):
        pass

    def __iter__(self):
        return iter(self._data.splitlines(keepends=True))

    def __enter__(self):
        return self

    def __exit__(self, *a):
        return False


@contextlib.contextmanager
def scratch_env():
    """Scratch data home + scratch HOME; restores the environment and removes the directory afterwards."""
    root = tempfile.mkdtemp(prefix="twv-data-")
    home = os.path.join(root, "home")
    data = os.path.join(root, "data")
    os.makedirs(home)
    saved = {k: os.environ.get(k) for k in ("TRAFFIC_WEAVER_DATA", "HOME")}
    os.environ["TRAFFIC_WEAVER_DATA"] = data
    os.environ["HOME"] = home
    try:
        yield types.SimpleNamespace(root=root, home=home, data=data)
    finally:
        for k, v in saved.items():
            if v is None:
                os.environ.pop(k, None)
            else:
                os.environ[k] = v
        shutil.rmtree(root, ignore_errors=True)


def tree(path, hidden=False):
    """files below `path`; hidden auxiliary files (dot files such as a lock file next to an entry) only on request:
    they are neither cache entries nor downloaded data"""
    out = []
    for d, dirs, files in os.walk(path):
        for f in files:
            if (f.startswith(".") or f.endswith(".lock")) and not hidden:
                continue
            out.append(os.path.relpath(os.path.join(d, f), path))
    return sorted(out)


def write_file(path, data, sim=None, chunked=False):
    with open(path, "wb") as f:
        if chunked and sim is not None and len(data) > 1:
            half = len(data) // 2
            f.write(data[:half])
            f.flush()
            sim.boundary("download:within")
            f.write(data[half:])
        else:
            f.write(data)
            if sim is not None:
                f.flush()
                sim.boundary("download:within")


def scripted_transport(script, payloads):
    """script: list of step names consumed one per call: an exception name from EXC, or 'good' / 'corrupted' /
    'truncated' / 'empty' / 'down'.  payloads: dict url -> bytes (or a single bytes for any url)."""
    state = dict(i=0)

    def transport(url, path, sim):
        i = state["i"]
        state["i"] += 1
        step = script[i] if i < len(script) else "down"
        data = payloads[url] if isinstance(payloads, dict) else payloads
        if step == "down":
            raise NetworkDown()
        if step in EXC:
            raise EXC[step]()
        if exc_name(step):
            # the connection breaks in the middle of the body: urlretrieve has already written part of the file
            with open(path, "wb") as f:
                f.write(data[:max(1, len(data) // 2)])
            sim.boundary("download:within")
            raise EXC[exc_name(step)]()
        if step == "corrupted":
            data = bytes([data[0] ^ 1]) + data[1:] if data else b"x"
        elif step == "truncated":
            data = data[:max(1, len(data) // 2)]
        elif step == "empty":
            data = b""
        write_file(path, data, sim, chunked=True)
    transport.state = state
    return transport


def gz(data, members=1):
    """gzip stream of `data`; members > 1 splits it at line boundaries into a multi-member stream (valid gzip:
    every reader has to concatenate the members)"""
    if members > 1:
        lines = data.splitlines(keepends=True)
        if len(lines) >= members:
            step = -(-len(lines) // members)
            return b"".join(gz(b"".join(lines[i:i + step])) for i in range(0, len(lines), step))
    buf = io.BytesIO()
    with gzip_mod.GzipFile(fileobj=buf, mode="wb", mtime=0) as f:
        f.write(data)
    return buf.getvalue()


def cache_files(path):
    """the published cache entry of a dataset: the documented slot <folder>/<name>, or <name>.<ext> next to it (another
    serialisation); files being written (.part / .tmp / .download ...) and sub-directories are not entries"""
    d, name = os.path.dirname(path), os.path.basename(path)
    out = []
    if os.path.isdir(d):
        for f in sorted(os.listdir(d)):
            p = os.path.join(d, f)
            if not os.path.isfile(p):
                continue
            if f == name or (f.startswith(name + ".") and not f.endswith((".part", ".tmp", ".temp", ".download", ".lock"))):
                out.append(p)
    return out


def read_cache(path):
    """File-level view of the cache entry: ('absent', None) | ('complete', ndarray) | ('corrupt', reason).
    The pinned tree pickles the array; an entry that is a complete .npy file is understood as well."""
    files = cache_files(path)
    if not files:
        return "absent", None
    reasons = []
    for p in files:
        try:
            with open(p, "rb") as f:
                obj = real_pickle.load(f)
        except Exception as e:  # noqa: BLE001
            try:
                obj = real_np.load(p, allow_pickle=False)
            except Exception:  # noqa: BLE001
                reasons.append(f"{os.path.basename(p)}: {type(e).__name__}: {e}")
                continue
        if not isinstance(obj, real_np.ndarray):
            reasons.append(f"{os.path.basename(p)} holds a {type(obj).__name__}")
            continue
        return "complete", obj
    return "corrupt", "; ".join(reasons)
