import sys
from twv.runner import main
sys.exit(main())
