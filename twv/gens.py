"""Shared Hypothesis strategies.  Every strategy yields plain Python data (lists, floats, ints, strings,
dicts) so that a case can be written to JSON and replayed bit for bit (Python's float repr round-trips)."""
import math

from hypothesis import strategies as st

FIN = dict(allow_nan=False, allow_infinity=False, allow_subnormal=False)


def fl(lo, hi):
    return st.floats(min_value=lo, max_value=hi, **FIN)


@st.composite
def gaps(draw, k, kinds=None, max_ratio=1e3):
    """k positive gaps; returns (kind, list of gaps as floats)."""
    kind = draw(st.sampled_from(kinds or ["unit", "fstep", "dyadic", "loguni", "motif", "hours", "tiny", "near-uniform"]))
    if k == 0:
        return kind, []
    if kind == "unit":
        return kind, [1.0] * k
    if kind in ("hours", "epoch"):
        return kind, [1.0] * k
    if kind == "fstep":
        h = draw(fl(1e-3, 1e3))
        return kind, [h] * k
    if kind == "tiny":
        # nanosecond-scale, clearly non-uniform: every gap is far below np.isclose / np.allclose absolute tolerances
        unit = draw(st.sampled_from([1e-9, 1e-10, 1e-12]))
        g = draw(st.lists(st.integers(1, 7), min_size=k, max_size=k))
        return kind, [unit * v for v in g]
    if kind == "near-uniform":
        # a uniform step with a few gaps off by 1e-7 .. 1e-5 relative: inside allclose's rtol, far above rounding
        h = draw(st.sampled_from([1.0, 0.5, 60.0, 3600.0, 0.1]))
        out = [h] * k
        for _ in range(draw(st.integers(1, 3))):
            i = draw(st.integers(0, k - 1))
            out[i] = h * (1 + draw(st.sampled_from([1e-7, -1e-7, 1e-6, -3e-6, 8e-6])))
        return kind, out
    if kind == "dyadic":
        g = draw(st.lists(st.integers(1, 16), min_size=k, max_size=k))
        return kind, [v / 8.0 for v in g]
    if kind == "motif":
        mlen = draw(st.integers(1, min(4, k)))
        base = draw(st.lists(st.sampled_from([0.25, 0.5, 1.0, 1.5, 2.0, 3.0, 7.0]), min_size=mlen, max_size=mlen))
        return kind, [base[i % mlen] for i in range(k)]
    # loguni
    lo = draw(fl(-3.0, 3.0))
    span = math.log10(max_ratio)
    e = draw(st.lists(fl(0.0, span), min_size=k, max_size=k))
    return kind, [10.0 ** (lo + v) for v in e]


@st.composite
def xs(draw, m, kinds=None, max_ratio=1e3, allow_int=True, offsets=True):
    """Strictly increasing abscissae of length m (m >= 1).  Returns dict(kind, x(list), int(bool))."""
    kind, g = draw(gaps(max(m - 1, 0), kinds, max_ratio))
    if kind == "unit":
        x0 = draw(st.integers(-50, 50))
        as_int = allow_int and draw(st.booleans())
        x = [x0 + i for i in range(m)]
        return dict(kind="unit-int" if as_int else "unit", x=[int(v) for v in x] if as_int else [float(v) for v in x],
                    int=as_int)
    if kind == "hours":
        x = [float(i) for i in range(m)]
        return dict(kind=kind, x=x, int=False)
    if kind == "epoch":
        # unix-time like abscissae: large magnitude, exact integer steps
        x0 = 1.7e9 + draw(st.integers(0, 10 ** 6))
        step = draw(st.sampled_from([1.0, 60.0, 3600.0]))
        return dict(kind=kind, x=[x0 + step * i for i in range(m)], int=False)
    if kind == "fstep":
        x0 = draw(fl(-1e3, 1e3))
        h = g[0] if g else 1.0
        x = [x0 + i * h for i in range(m)]
    elif kind == "tiny":
        x0 = draw(st.sampled_from([0.0, 1e-9, -3e-9]))
        x = [x0]
        for v in g:
            x.append(x[-1] + v)
    elif kind == "near-uniform":
        x0 = float(draw(st.integers(-10, 10)))
        x = [x0]
        for v in g:
            x.append(x[-1] + v)
    elif kind in ("dyadic", "motif"):
        x0 = draw(st.integers(-64, 64)) / 8.0
        x = [x0]
        for v in g:
            x.append(x[-1] + v)
    else:
        x0 = draw(fl(-1e3, 1e3))
        if offsets and draw(st.integers(0, 5)) == 0:
            x0 = 1e6 + x0
            kind = "loguni-offset"
        x = [x0]
        for v in g:
            x.append(x[-1] + v)
    # float rounding can merge samples when the offset is large relative to a gap: enforce strictness
    out = [float(x[0])]
    for v in x[1:]:
        v = float(v)
        if not v > out[-1]:
            v = math.nextafter(out[-1], math.inf) * 1.0
            if not v > out[-1]:
                v = out[-1] + abs(out[-1]) * 1e-9 + 1e-9
        out.append(v)
    return dict(kind=kind, x=out, int=False)


@st.composite
def ys(draw, m, kinds=None, nonconstant=False):
    """Values of length m.  Returns dict(kind, y(list)).  Neighbouring-jump ratio bounded by 2**30."""
    kinds = list(kinds or ["int", "dyadic", "smooth", "ties", "const", "sign", "offset"])
    if nonconstant and m >= 2:
        kinds = [k for k in kinds if k != "const"]
    kind = draw(st.sampled_from(kinds))
    if kind == "int":
        y = [float(v) for v in draw(st.lists(st.integers(-20, 20), min_size=m, max_size=m))]
    elif kind == "dyadic":
        y = [v / 16.0 for v in draw(st.lists(st.integers(-400, 400), min_size=m, max_size=m))]
    elif kind == "smooth":
        scale = 10.0 ** draw(fl(-3.0, 4.0))
        amp = draw(fl(0.1, 1.0))
        w = draw(fl(0.05, 2.0))
        ph = draw(fl(0.0, 6.28))
        noise = draw(st.lists(fl(-0.2, 0.2), min_size=m, max_size=m))
        base = draw(fl(-1.0, 2.0))
        y = [scale * (base + amp * math.sin(w * i + ph) + noise[i]) for i in range(m)]
    elif kind == "ties":
        alpha = draw(st.lists(st.sampled_from([0.0, 1.0, 2.0, 3.5, -1.0, 10.0]), min_size=1, max_size=3, unique=True))
        y = [draw(st.sampled_from(alpha)) for _ in range(m)]
    elif kind == "const":
        c = draw(st.one_of(st.integers(-5, 5).map(float), fl(-1e3, 1e3)))
        y = [c] * m
    elif kind == "sign":
        y = [((-1) ** i) * v for i, v in enumerate(draw(st.lists(fl(0.1, 10.0), min_size=m, max_size=m)))]
    elif kind == "burst":
        # large dynamic range (not in the default list): values of order one with a few bursts 1e7..1e13 times larger
        y = [float(v) for v in draw(st.lists(st.one_of(st.integers(1, 20).map(float), fl(0.5, 10.0)), min_size=m, max_size=m))]
        nb = draw(st.integers(1, max(1, min(3, m // 3))))
        for _ in range(nb):
            i = draw(st.integers(0, max(0, m - 2)))
            y[i] = y[i] * 10.0 ** draw(st.integers(7, 13))
    else:
        y = [1e6 + v for v in draw(st.lists(fl(-10.0, 10.0), min_size=m, max_size=m))]
    # magnitudes next to the bottom of the normal range are snapped to zero: products value * gap would underflow
    # into subnormals and lose all relative precision (a float-range corner, not the subject of any property)
    y = [0.0 if 0 < abs(v) < 1e-100 else v for v in y]
    if nonconstant and m >= 2 and all(v == y[0] for v in y):
        y[-1] = y[0] + 1.0
        kind = kind + "+1"
    return dict(kind=kind, y=y)


def jump_ratio_ok(y, bound=2.0 ** 30, smooth=1.0):
    """Design section 3 / finding KF-2: the adaptive factor (ratio of non-zero neighbouring jumps, raised to
    adaptive_smooth) stays within [2**-30, 2**30]."""
    d = [abs(b - a) for a, b in zip(y[:-1], y[1:]) if b != a]
    if not d:
        return True
    import math
    return math.log2(max(d) / min(d)) * max(smooth, 1e-9) <= math.log2(bound)


@st.composite
def series(draw, m_lo, m_hi, xkinds=None, ykinds=None, max_ratio=1e3, nonconstant=False, allow_int=True):
    m = draw(st.integers(m_lo, m_hi))
    xd = draw(xs(m, xkinds, max_ratio, allow_int=allow_int))
    yd = draw(ys(m, ykinds, nonconstant=nonconstant))
    as_list = draw(st.integers(0, 4)) == 0
    return dict(x=xd["x"], y=yd["y"], xkind=xd["kind"], ykind=yd["kind"], xint=xd["int"], as_list=as_list)


def is_uniform(x):
    if len(x) < 3:
        return True
    d = [b - a for a, b in zip(x[:-1], x[1:])]
    return max(d) - min(d) <= 1e-9 * max(abs(v) for v in d)


STRATEGY_NAMES = ["PiecewiseConstantRFA", "CubicSplineRFA", "LinearFixedRFA", "LinearAdaptiveRFA", "ExpFixedRFA",
                  "ExpAdaptiveRFA"]
WINDOW_STRATEGIES = ["LinearFixedRFA", "LinearAdaptiveRFA", "ExpFixedRFA", "ExpAdaptiveRFA"]
ADAPTIVE = ["LinearAdaptiveRFA", "ExpAdaptiveRFA"]
EXP = ["ExpFixedRFA", "ExpAdaptiveRFA"]


@st.composite
def rfa_params(draw, name, n, exp_lo=0.02, smooth_default=False, default_prob=5, alpha_hi=1.0):
    """Keyword arguments for strategy `name` within the documented ranges."""
    kw = {}
    if name in WINDOW_STRATEGIES:
        mode = draw(st.sampled_from(["default", "alpha", "a", "a"]))
        if mode == "alpha":
            kw["alpha"] = draw(st.one_of(st.sampled_from([1.0, 0.5, 0.25, 0.75] + ([1.5, 2.0] if alpha_hi > 1 else [])),
                                         fl(0.01, alpha_hi)))
        elif mode == "a":
            kw["a"] = draw(st.integers(0, n))
        if name in EXP:
            if draw(st.integers(0, default_prob)) != 0:
                kw["beta"] = draw(st.one_of(st.sampled_from([0.0, 1.0, 0.5, 0.25, 0.75]), fl(0.0, 1.0)))
            if draw(st.integers(0, default_prob)) != 0:
                kw["exp"] = draw(st.one_of(st.sampled_from([1.0, 2.0, 3.0, 0.5]), fl(exp_lo, 4.0)))
        if name in ADAPTIVE and not smooth_default:
            if draw(st.integers(0, 2)) != 0:
                kw["adaptive_smooth"] = draw(st.one_of(st.sampled_from([1.0, 0.5, 2.0, 3.0]), fl(0.05, 3.0)))
    return kw


_WINDOW_OVERRIDE = [None]


def effective_a(kw, n):
    if _WINDOW_OVERRIDE[0] is not None:
        return _WINDOW_OVERRIDE[0]
    a = kw.get("a")
    if a is None:
        a = kw.get("alpha", 1.0) * n
    a = int(a)
    return max(a, 2)


def window_candidates(kw, n):
    """The transition window in samples.  An explicit `a`, or a product alpha*n that is an integer, leaves no choice.
    For a fractional product the documentation only says "a = alpha * n": truncation (what the code does, listed
    first), rounding to nearest and rounding up are all readings of it."""
    import math
    if kw.get("a") is not None:
        return [max(int(kw["a"]), 2)]
    p = kw.get("alpha", 1.0) * n
    if abs(p - round(p)) <= 1e-9 * max(1.0, abs(p)) and int(p) == round(p):
        return [max(int(p), 2)]
    out = []
    for v in (int(p), int(round(p)), int(math.ceil(p))):
        v = max(v, 2)
        if v not in out:
            out.append(v)
    return out


def with_window_candidates(body):
    """runs a check body once per admissible reading of the window size; it holds if it holds for one of them
    (the first reading - truncation - is the one reported when none fits)"""
    from twv.runner import Violation

    def wrapped(ctx, case):
        first = None
        for a in window_candidates(case["kw"], case["n"]):
            _WINDOW_OVERRIDE[0] = a
            try:
                return body(ctx, case)
            except Violation as v:
                if first is None:
                    first = v
            finally:
                _WINDOW_OVERRIDE[0] = None
        raise first
    wrapped.__name__ = getattr(body, "__name__", "body")
    return wrapped
