"""Reference models.  Written from the documentation / property statements; they share no code with
traffic_weaver (no imports from it) and use brute force or exact rational arithmetic where possible."""
from fractions import Fraction

import numpy as np


# ---- nearest-sample search (C10, also fixed-point designation in C01..C03) ---------------------------------

def lower_index(x, q, fill=True):
    """index of the largest element <= q; if none: 0 when filling, else -1."""
    best = None
    for i, v in enumerate(x):
        if v <= q:
            best = i
    if best is None:
        return 0 if fill else -1
    return best


def higher_index(x, q, fill=True):
    """index of the smallest element >= q; if none: last index when filling, else len(x)."""
    for i, v in enumerate(x):
        if v >= q:
            return i
    return len(x) - 1 if fill else len(x)


def closest_index(x, q):
    """index of the nearest element, ties to the lower one; distances compared exactly (rationals)."""
    fq = Fraction(q)
    best, bd = None, None
    for i, v in enumerate(x):
        d = abs(Fraction(v) - fq)
        if bd is None or d < bd:
            best, bd = i, d
    return best


def closest_candidates(x, q):
    """Admissible answers of the 'closest' search under float evaluation of the two distances: when the
    exact distances to the two neighbours differ by less than the rounding error of the float subtractions
    both neighbours are accepted (design section 3, ambiguity rule)."""
    i = closest_index(x, q)
    cands = {i}
    fq = Fraction(q)
    di = abs(Fraction(x[i]) - fq)
    for j in (i - 1, i + 1):
        if 0 <= j < len(x):
            dj = abs(Fraction(x[j]) - fq)
            tol = Fraction(np.spacing(max(abs(float(q)), abs(float(x[i])), abs(float(x[j])))) * 2)
            if abs(dj - di) <= tol and (dj - di) != 0:
                cands.add(j)
    return cands


def search(x, qs, strategy, fill=True):
    if strategy == "lower":
        return [lower_index(x, q, fill) for q in qs]
    if strategy == "higher":
        return [higher_index(x, q, fill) for q in qs]
    if strategy == "closest":
        return [closest_index(x, q) for q in qs]
    raise KeyError(strategy)


# ---- integration rules ---------------------------------------------------------------------------------------

def rule_integrals(x, y, rule):
    """Elementary integrals of (x, y) on each gap, as a list of floats."""
    out = []
    for i in range(len(x) - 1):
        dx = x[i + 1] - x[i]
        if rule == "rectangle":
            out.append(y[i] * dx)
        elif rule == "trapezoid":
            out.append((y[i] + y[i + 1]) / 2 * dx)
        else:
            raise KeyError(rule)
    return out


def rule_integral(x, y, rule, lo, hi):
    """Integral of (x, y) from sample lo to sample hi (indices) with the given rule; math.fsum accuracy."""
    import math
    return math.fsum(rule_integrals(x[lo:hi + 1], y[lo:hi + 1], rule))


def abs_integral(x, y, lo, hi):
    import math
    return math.fsum((abs(y[i]) + abs(y[i + 1])) * (x[i + 1] - x[i]) for i in range(lo, hi))


# ---- shape functions (C06a), written from the documented closed forms ---------------------------------------

def shape(name, t, exponent):
    """Fraction of the way from y0 to y1 at relative position t in [0, 1]."""
    if name == "lin":
        return t
    if name == "exp":
        return t ** exponent
    if name == "exp_xy":
        return 1 - (1 - t) ** exponent
    if name == "exp_lin":          # linear * t + power * (1 - t)
        return t * t + (1 - t) * t ** exponent
    if name == "lin_exp_xy":       # mirrored power * t + linear * (1 - t)
        return t * (1 - (1 - t) ** exponent) + (1 - t) * t
    raise KeyError(name)


def _blend(y0, y1, f):
    return y0 + (y1 - y0) * f


# ---- reference model of the transition-window strategies (C06b/c), from the class docstrings --------------------

def extended_grid(x, n):
    """x_ext[k][i], k = -1 .. m-1 (virtual interval on each side continuing the neighbouring spacing)."""
    m = len(x)
    grid = {}
    for k in range(-1, m):
        if k == -1:
            x0, step = x[0] - (x[1] - x[0]), (x[1] - x[0]) / n
        elif k == m - 1:
            x0, step = x[m - 1], (x[m - 1] - x[m - 2]) / n
        else:
            x0, step = x[k], (x[k + 1] - x[k]) / n
        grid[k] = [x0 + step * i for i in range(n + 1)]
    return grid


def fixed_windows(a, m):
    """a_l = a_r = int(a/2) for every interval"""
    h = int(a / 2)
    return [(h, h)] * (m - 1)


def adaptive_window_candidates(y, a, k):
    """Admissible (a_l, a_r) of interval k (0..m-2) under the documented rule with adaptive_smooth = 1:
    gamma = |right jump| / |left jump|, a_l = int(clip(gamma*a/(1+gamma), 1, a)), a_r = int(clip(a/(1+gamma), 1, a));
    ties: no window on a side without a jump, int(a/2) on the side that changes.  The real-valued window is
    evaluated in exact rationals; if it lies within 1e-9 of an integer both neighbouring integers are admissible."""
    left = y[k - 1] if k > 0 else y[k]
    nom = abs(y[k + 1] - y[k])
    den = abs(y[k] - left)
    if nom == 0 and den == 0:
        return [(0, 0)]
    if nom == 0:
        return [(int(a / 2), 0)]
    if den == 0:
        return [(0, int(a / 2))]
    fn, fd = Fraction(nom), Fraction(den)
    ql = fn * a / (fd + fn)
    qr = fd * a / (fd + fn)

    def cands(q):
        q = min(max(q, Fraction(1)), Fraction(a))
        base = int(q)
        out = {base}
        eps = Fraction(1, 10 ** 9) * max(1, base)
        if q - base < eps and base - 1 >= 1:
            out.add(base - 1)
        if (base + 1) - q < eps and base + 1 <= a:
            out.add(base + 1)
        return sorted(out)
    return [(l, r) for l in cands(ql) for r in cands(qr)]


def window_model(x, y, n, windows, family, beta=0.5, exponent=2.0, virtual=(1, 1)):
    """Values of all intervals 0..m-2 (list of m-1 lists of n values) given per-interval windows (a_l, a_r).
    family 'linear': straight line between border value and plateau; family 'exp': linear piece of
    b = int(beta * window) samples next to the border followed by the linear/power blend up to the plateau."""
    m = len(x)
    g = extended_grid(x, n)

    def win(k):      # windows of the virtual neighbours beyond the two ends (only the right one matters: the
        if 0 <= k < m - 1:   # statement speaks of interior borders, callers do not judge that transition)
            return windows[k]
        return virtual

    def yv(k):       # plateau value incl. virtual neighbours
        if k < 0:
            return y[0]
        return y[min(k, m - 1)]

    def border(k):
        """value at the border between interval k-1 and k (abscissa x_ext[k][0])"""
        ar_prev = win(k - 1)[1]
        al = win(k)[0]
        if ar_prev == 0 and al == 0:
            return yv(k - 1)
        xa = g[k - 1][n - ar_prev]
        xb = g[k][al]
        t = (g[k][0] - xa) / (xb - xa)
        return _blend(yv(k - 1), yv(k), t)

    out = []
    for k in range(m - 1):
        al, ar = windows[k]
        yk = y[k]
        z = [yk] * n
        z0 = border(k)
        z1 = border(k + 1)
        xs = g[k]
        if family == "linear":
            for i in range(al):
                t = (xs[i] - xs[0]) / (xs[al] - xs[0])
                z[i] = _blend(z0, yk, t)
            for i in range(n - ar + 1, n):
                t = (xs[i] - xs[n - ar]) / (xs[n] - xs[n - ar])
                z[i] = _blend(yk, z1, t)
        else:
            bl, br = int(beta * al), int(beta * ar)
            if al > 0:
                zb = _blend(z0, yk, (xs[bl] - xs[0]) / (xs[al] - xs[0]))
                for i in range(bl):
                    z[i] = _blend(z0, zb, (xs[i] - xs[0]) / (xs[bl] - xs[0]))
                for i in range(bl, al):
                    t = (xs[i] - xs[bl]) / (xs[al] - xs[bl])
                    z[i] = _blend(zb, yk, shape("lin_exp_xy", t, exponent))
            if ar > 0:
                zb = _blend(yk, z1, (xs[n - br] - xs[n - ar]) / (xs[n] - xs[n - ar]))
                for i in range(n - ar, n - br):
                    t = (xs[i] - xs[n - ar]) / (xs[n - br] - xs[n - ar])
                    z[i] = _blend(yk, zb, shape("exp_lin", t, exponent))
                for i in range(n - br, n):
                    t = (xs[i] - xs[n - br]) / (xs[n] - xs[n - br])
                    z[i] = _blend(zb, z1, t)
        out.append(z)
    return out
