"""Reference models.  Written from the documentation / property statements; they share no code with
traffic_weaver (no imports from it) and use brute force or exact rational arithmetic where possible."""
from fractions import Fraction

import numpy as np


# ---- nearest-sample search (C10, also fixed-point designation in C01..C03) ---------------------------------

def lower_index(x, q, fill=True):
    """index of the largest element <= q; if none: 0 when filling, else -1."""
    best = None
    for i, v in enumerate(x):
        if v <= q:
            best = i
    if best is None:
        return 0 if fill else -1
    return best


def higher_index(x, q, fill=True):
    """index of the smallest element >= q; if none: last index when filling, else len(x)."""
    for i, v in enumerate(x):
        if v >= q:
            return i
    return len(x) - 1 if fill else len(x)


def closest_index(x, q):
    """index of the nearest element, ties to the lower one; distances compared exactly (rationals)."""
    fq = Fraction(q)
    best, bd = None, None
    for i, v in enumerate(x):
        d = abs(Fraction(v) - fq)
        if bd is None or d < bd:
            best, bd = i, d
    return best


def closest_candidates(x, q):
    """Admissible answers of the 'closest' search under float evaluation of the two distances: when the
    exact distances to the two neighbours differ by less than the rounding error of the float subtractions
    both neighbours are accepted (design section 3, ambiguity rule)."""
    i = closest_index(x, q)
    cands = {i}
    fq = Fraction(q)
    di = abs(Fraction(x[i]) - fq)
    for j in (i - 1, i + 1):
        if 0 <= j < len(x):
            dj = abs(Fraction(x[j]) - fq)
            tol = Fraction(np.spacing(max(abs(float(q)), abs(float(x[i])), abs(float(x[j])))) * 2)
            if abs(dj - di) <= tol and (dj - di) != 0:
                cands.add(j)
    return cands


def search(x, qs, strategy, fill=True):
    if strategy == "lower":
        return [lower_index(x, q, fill) for q in qs]
    if strategy == "higher":
        return [higher_index(x, q, fill) for q in qs]
    if strategy == "closest":
        return [closest_index(x, q) for q in qs]
    raise KeyError(strategy)


# ---- integration rules ---------------------------------------------------------------------------------------

def rule_integrals(x, y, rule):
    """Elementary integrals of (x, y) on each gap, as a list of floats."""
    out = []
    for i in range(len(x) - 1):
        dx = x[i + 1] - x[i]
        if rule == "rectangle":
            out.append(y[i] * dx)
        elif rule == "trapezoid":
            out.append((y[i] + y[i + 1]) / 2 * dx)
        else:
            raise KeyError(rule)
    return out


def rule_integral(x, y, rule, lo, hi):
    """Integral of (x, y) from sample lo to sample hi (indices) with the given rule; math.fsum accuracy."""
    import math
    return math.fsum(rule_integrals(x[lo:hi + 1], y[lo:hi + 1], rule))


def abs_integral(x, y, lo, hi):
    import math
    return math.fsum((abs(y[i]) + abs(y[i + 1])) * (x[i + 1] - x[i]) for i in range(lo, hi))
