"""Program sessions and state machines over the whole public Weaver API (C09, C20)."""
import copy
import math
import warnings

import numpy as np
from hypothesis import strategies as st
from hypothesis.stateful import RuleBasedStateMachine, initialize, rule, precondition

from twv import gens, weaver_ops as wo
from twv.gens import fl
from twv.runner import Violation, as_violation

from traffic_weaver import Weaver

MAXLEN = 600
RESHAPING = set(wo.RESHAPING_OPS)


def _gap_ok(x):
    x = np.asarray(x, dtype=float)
    if len(x) < 2:
        return True
    return bool(np.all(np.isfinite(x))) and float(np.min(np.diff(x))) >= 1e-9 * float(np.max(np.abs(x)) + 1e-300)


def _nonconst(a):
    a = np.asarray(a, dtype=float)
    return float(np.max(a) - np.min(a)) > 1e-9 * float(np.max(np.abs(a)) + 1e-300)


class ProgramSession:
    def __init__(self, init):
        self.init = init
        dtx = np.int64 if init.get("xint") else float
        dty = np.int64 if init.get("yint") else float
        if init.get("as_list"):
            self.cx = [int(v) if init.get("xint") else float(v) for v in init["x"]]
            self.cy = [int(v) if init.get("yint") else float(v) for v in init["y"]]
        else:
            self.cx = np.array(init["x"], dtype=dtx)
            self.cy = np.array(init["y"], dtype=dty)
        self.cx0, self.cy0 = copy.deepcopy(self.cx), copy.deepcopy(self.cy)
        self.ops = []
        self.failed = False
        self.twin = None
        self.kept = []          # array arguments handed to operations: the caller's data too
        self.norm_x = self.norm_y = False
        self.w = None
        self.guard(self._construct)

    # -- plumbing -----------------------------------------------------------------------------------------------
    def trace(self):
        return dict(init=self.init, ops=list(self.ops))

    def fail(self, msg, detail=None):
        raise Violation(msg, case=self.trace(), detail=detail)

    def guard(self, fn, *a):
        try:
            with warnings.catch_warnings():
                warnings.simplefilter("ignore")
                return fn(*a)
        except Exception as e:
            self.failed = True
            v = as_violation(e, self.trace())
            if v is None:
                raise
            ProgramSession.last_violation = v
            if v is e:
                raise
            raise v from None

    def _construct(self):
        self.w = Weaver(self.cx, self.cy)
        ox, oy = self.w.get_original()
        self.exp_ox = np.array(self.cx0).copy()
        self.exp_oy = np.array(self.cy0).copy()
        self.check("construction")

    # -- observable state -------------------------------------------------------------------------------------------
    def xy(self):
        x, y = self.w.get()
        return np.asarray(x, dtype=float), np.asarray(y, dtype=float)

    def ref(self):
        x, y = self.w.get_reference()
        return np.asarray(x, dtype=float), np.asarray(y, dtype=float)

    # -- documented preconditions, evaluated on the observable state ---------------------------------------------------
    def admissible(self, op):
        k = op["op"]
        x, y = self.xy()
        rx, ry = self.ref()
        ox, oy = (np.asarray(a, dtype=float) for a in self.w.get_original())
        L = len(x)
        if k == "append":
            return L >= 2 and len(rx) >= 2 and L + 1 <= MAXLEN
        if k == "shift_x":
            return _gap_ok(x + op["v"]) and _gap_ok(rx + op["v"])
        if k == "shift_y":
            return True
        if k == "scale_x":
            return op["v"] > 0 and _gap_ok(x * op["v"]) and _gap_ok(rx * op["v"])
        if k == "scale_y":
            return op["v"] != 0
        if k == "normalize_x":
            if not op["lo"] < op["hi"] or L < 2 or len(rx) < 2:
                return False
            return all(_gap_ok(wo.model_normalize(a, op["lo"], op["hi"])) for a in (x, rx, ox))
        if k == "normalize_y":
            return op["lo"] < op["hi"] and _nonconst(y) and _nonconst(ry) and _nonconst(oy)
        if k == "repeat":
            return L >= 2 and len(rx) >= 2 and L * op["n"] <= MAXLEN and len(rx) * op["n"] <= 8 * MAXLEN
        if k == "truncate_value":
            out = []
            for xs_ in (x, rx):
                xl = [float(v) for v in xs_]
                if len(xl) < 2:
                    return False
                a, b, left, right = wo.model_truncate_bounds(xl, op["left"], op["right"], op["lr"], op["rr"])
                if not left < right:
                    return False
                tol = 64 * float(np.spacing(np.max(np.abs(xs_))))
                for bound in (left, right):
                    d = np.abs(xs_ - bound)
                    if float(np.min(d)) < tol and not np.any(xs_ == bound):
                        return False
                    if (op["lr"] or op["rr"]) and float(np.min(d)) < tol:
                        return False
                out.append(b - a + 1)
            return out[0] >= 4 and out[1] >= 2
        if k == "truncate_index":
            stop = L if op["stop"] is None else op["stop"]
            if not (0 <= op["start"] and stop <= L):
                return False
            return stop - op["start"] >= 4 and len(rx[op["start"]:stop]) >= 2
        if k == "recreate":
            return L >= 2 and (L - 1) * op["n"] + 1 <= MAXLEN and op["n"] >= 2
        if k == "match":
            # 'loose': fixed points only have to be distinct (the code stretches two-point windows as a whole); used to
            # reach integral_match while the working series is still the array the caller handed in
            return wo.match_admissible(x, rx, 1 if op.get("loose") else 2)
        if k == "interpolate":
            if op["method"] in ("cubic", "spline") and L < 5:
                return False
            if L < 2:
                return False
            if op.get("new_x") is not None:
                nx = op["new_x"]
                return (len(nx) >= 2 and nx[0] == x[0] and nx[-1] == x[-1] and _gap_ok(nx) and len(nx) <= MAXLEN)
            return 2 <= op["n"] <= MAXLEN and _gap_ok(np.linspace(x[0], x[-1], op["n"]))
        if k == "smooth":
            return L >= 5
        if k == "trend":
            return L >= 2
        if k == "noise":
            snr = op["snr"]
            return not isinstance(snr, list) or len(snr) == L
        if k == "restore":
            return True
        return False

    # -- execution ------------------------------------------------------------------------------------------------------
    def do(self, op):
        self.guard(self._do, op)

    def _do(self, op):
        self.ops.append(op)
        k = op["op"]
        wo.apply_op(self.w, op, self.kept)
        if k == "restore":
            ox, oy = self.w.get_original()
            self.twin = Weaver(np.array(ox).copy(), np.array(oy).copy())
        elif self.twin is not None:
            wo.apply_op(self.twin, op)
        if k == "normalize_x":
            self.exp_ox = wo.model_normalize(self.exp_ox.astype(float), op["lo"], op["hi"])
            self.norm_x = True
        if k == "normalize_y":
            self.exp_oy = wo.model_normalize(self.exp_oy.astype(float), op["lo"], op["hi"])
            self.norm_y = True
        self.check(f"after step {len(self.ops)} ({k})")

    def check(self, when):
        wo.well_formed(self.w.get(), f"get() {when}")
        # caller's data
        for nm, cur, orig in (("x", self.cx, self.cx0), ("y", self.cy, self.cy0)):
            if type(cur) is not type(orig):
                self.fail(f"{when}: the caller's {nm} changed type")
            if isinstance(orig, np.ndarray):
                if cur.dtype != orig.dtype or cur.shape != orig.shape or not np.array_equal(cur, orig):
                    self.fail(f"{when}: the caller's {nm} array was modified",
                              detail=dict(before=orig.tolist(), after=np.asarray(cur).tolist()))
            elif cur != orig:
                self.fail(f"{when}: the caller's {nm} list was modified")
        for label, cur, pristine in self.kept:
            same = (np.array_equal(cur, pristine) and cur.dtype == pristine.dtype) if isinstance(pristine, np.ndarray) \
                else cur == pristine
            if not same:
                self.fail(f"{when}: the array the caller passed as {label} was modified",
                          detail=dict(before=np.asarray(pristine).tolist(), after=np.asarray(cur).tolist()))
        # stored original
        orig = self.w.get_original()
        if not (isinstance(orig, tuple) and len(orig) == 2):
            self.fail(f"{when}: get_original() is not a pair")
        for nm, got, want, normed in (("x", orig[0], self.exp_ox, self.norm_x), ("y", orig[1], self.exp_oy, self.norm_y)):
            if not isinstance(got, np.ndarray) or got.shape != want.shape:
                self.fail(f"{when}: stored original {nm} changed shape or type")
            if not normed:
                # values, not dtype: a Weaver may keep the series it was given as float64 from the start
                if not np.array_equal(got, want):
                    self.fail(f"{when}: stored original {nm} changed", detail=dict(before=want.tolist(), after=got.tolist()))
            else:
                tol = 1e-9 * float(np.max(np.abs(want))) + 1e-300
                if float(np.max(np.abs(got - want))) > tol:
                    self.fail(f"{when}: stored original {nm} is not the normalised original")
        # restore equivalence
        if self.twin is not None:
            a, b = wo.snapshot(self.w), wo.snapshot(self.twin)
            if not wo.same_snapshot(a, b):
                names = ["get()", "get_reference()", "get_original()"]
                for nm, pa, pb in zip(names, a, b):
                    if not wo.same_snapshot([pa], [pb]):
                        self.fail(f"{when}: after restore_original the object's {nm} differs from a freshly constructed "
                                  f"Weaver on get_original() given the same operations",
                                  detail=dict(restored=[_brief(t) for t in pa], fresh=[_brief(t) for t in pb]))

    # -- read-only selectors -----------------------------------------------------------------------------------------------
    def select(self, op):
        self.guard(self._select, op)

    def _select(self, op):
        self.ops.append(op)
        x, y = (np.array(a) for a in self.w.get())
        self.seen_x = list(getattr(self, "seen_x", []))[-200:] + [float(v) for v in x[:50]]
        i, j = op["i"], op["j"]
        if op["how"] == "index":
            got = self.w.slice_by_index(i, j + 1)
            lo, hi = i, j
        else:
            if not (0 <= i <= j < len(x)) or float(x[i]) != op["start"] or float(x[j]) != op["stop"]:
                return                      # replay on another tree: the recorded values are no samples here
            kw = {}
            if op["how"] != "value-open-start":
                kw["start"] = op["start"]
            if op["how"] != "value-open-stop":
                kw["stop"] = op["stop"]
            got = self.w.slice_by_value(**kw)
            lo = 0 if op["how"] == "value-open-start" else i
            hi = len(x) - 1 if op["how"] == "value-open-stop" else j
        if not (isinstance(got, tuple) and len(got) == 2 and np.array_equal(np.asarray(got[0]), x[lo:hi + 1])
                and np.array_equal(np.asarray(got[1]), y[lo:hi + 1])):
            self.fail(f"{op['how']} selection [{op['start']!r}, {op['stop']!r}] does not return the samples "
                      f"{lo}..{hi} of the current series", detail=dict(got=[np.asarray(a).tolist() for a in got][:1]))
        if self.twin is not None and op["how"] != "index":
            pass
        self.check(f"after step {len(self.ops)} (select)")

    # -- rejected requests (C20) ------------------------------------------------------------------------------------------
    def reject(self, bad):
        self.guard(self._reject, bad)

    def _reject(self, bad):
        self.ops.append(dict(bad, op="bad"))
        before = wo.snapshot(self.w)
        try:
            call_bad(self.w, bad)
        except ValueError:
            pass
        except Exception as e:  # noqa: BLE001
            self.fail(f"invalid request {bad['kind']} raised {type(e).__name__} instead of ValueError: {e}")
        else:
            self.fail(f"invalid request {bad['kind']} was accepted", detail=bad)
        if not wo.same_snapshot(before, wo.snapshot(self.w)):
            self.fail(f"rejected request {bad['kind']} changed the Weaver's state", detail=bad)
        if self.twin is not None:
            try:
                call_bad(self.twin, bad)
            except Exception:  # noqa: BLE001
                pass
        self.check(f"after rejected step {len(self.ops)} ({bad['kind']})")


def _brief(t):
    kind, dtype, a = t
    if kind == "nd":
        return dict(dtype=dtype, len=int(a.shape[0]) if a.ndim else 0, head=a[:4].tolist(), tail=a[-2:].tolist())
    return dict(type=kind)


def call_bad(w, bad):
    k = bad["kind"]
    import traffic_weaver.rfa as rfa_mod
    if k == "recreate_n":
        return w.recreate_from_average(bad["n"], rfa_class=getattr(rfa_mod, bad["strategy"]))
    if k == "match_target_rule":
        return w.integral_match(target_function_integral_method=bad["name"])
    if k == "match_reference_rule":
        return w.integral_match(reference_function_integral_method=bad["name"])
    if k == "match_search":
        return w.integral_match(fixed_points_finding_strategy=bad["name"])
    if k == "match_fixed_not_in_x":
        return w.integral_match(fixed_points_in_x=bad["values"])
    if k == "match_too_many_fixed_x":
        return w.integral_match(fixed_points_in_x=bad["values"])
    if k == "match_too_many_fixed_idx":
        return w.integral_match(fixed_points_indices_in_x=bad["values"])
    if k == "truncate_inverted":
        return w.truncate_by_value(bad["left"], bad["right"], x_left_as_ratio=bad["lr"], x_right_as_ratio=bad["rr"])
    if k == "truncate_index_range":
        return w.truncate_by_index(bad["start"], bad["stop"])
    if k == "slice_index_range":
        if bad.get("step") is not None:
            return w.slice_by_index(bad["start"], bad["stop"], bad["step"])
        return w.slice_by_index(bad["start"], bad["stop"])
    if k == "slice_value_absent":
        return w.slice_by_value(bad["start"], bad["stop"])
    if k == "interpolate_method":
        return w.interpolate(n=bad["n"], method=bad["name"])
    if k == "interpolate_ends":
        nx = bad["new_x"] if bad.get("as_list") else np.array(bad["new_x"], dtype=float)
        extra = dict(bad.get("fill") or {})     # fill values for points outside the data: valid keywords
        if bad.get("n") is not None:
            # documented: n is "ignored if new_x specified" - the grid is what counts, and it is a bad one
            return w.interpolate(n=bad["n"], new_x=nx, method=bad["method"], **extra)
        return w.interpolate(new_x=nx, method=bad["method"], **extra)
    if k == "interpolate_nothing":
        return w.interpolate(method=bad["method"])
    raise KeyError(k)


def classify(trace):
    kinds = [o["op"] if o["op"] != "bad" else "bad:" + o["kind"] for o in trace["ops"]]
    cls = set("op:" + k for k in kinds)
    cls.add(f"len={min(len(kinds), 10)}")
    plain = [k for k in kinds if not k.startswith("bad:")]
    nt = False
    for i, k in enumerate(plain):
        if k in RESHAPING and any(j in wo.DOMAIN_OPS for j in plain[i + 1:]):
            nt = True
        if k == "restore":
            if len(plain) - i - 1 >= 2:
                nt = True
            prev = [p for p in plain[:i] if p in ("repeat", "scale_x", "scale_y", "append", "truncate_value",
                                                  "truncate_index", "shift_x", "shift_y", "normalize_x", "normalize_y")]
            for p in set(prev):
                cls.add(f"restore-after:{p}")
    return sorted(cls), nt


def classify_reject(trace):
    cls, _ = classify(trace)
    kinds = [o["op"] for o in trace["ops"]]
    nt = False
    for i, o in enumerate(trace["ops"]):
        if o["op"] == "bad":
            before = set(k for k in kinds[:i] if k != "bad")
            if len(before) >= 2:
                nt = True
    return cls, nt


def replay(ctx, case, reject_mode=False):
    sess = ProgramSession(case["init"])
    for op in case["ops"]:
        if op["op"] == "bad":
            sess.reject({k: v for k, v in op.items() if k != "op"})
        elif op["op"] == "select":
            sess.select(op)
        elif sess.admissible(op):
            sess.do(op)
        else:
            ctx.count("inadmissible-op-in-trace-skipped")
    cls, nt = (classify_reject if reject_mode else classify)(case)
    ctx.record(case, cls[:40], nt)


# ---- state machine ----------------------------------------------------------------------------------------------------

XK = ["unit", "fstep", "dyadic", "motif", "hours", "loguni"]
TREND = st.one_of(
    st.builds(lambda c: dict(kind="poly", coef=c), st.lists(fl(-2.0, 2.0), min_size=1, max_size=4)),
    st.builds(lambda A, w, p: dict(kind="sin", A=A, w=w, phi=p), fl(0.1, 5.0), fl(0.01, 3.0), fl(0.0, 6.28)),
    st.just(dict(kind="zero")))


def make_machine(ctx, with_rejects=False, max_ops=10):
    class ProgramMachine(RuleBasedStateMachine):
        def __init__(self):
            super().__init__()
            self.sess = None

        @initialize(s=gens.series(4, ctx.pick(24, 40), xkinds=XK, max_ratio=1e2, allow_int=True),
                    yint=st.booleans())
        def start(self, s, yint):
            yint = yint and all(float(v).is_integer() for v in s["y"])
            self.sess = ProgramSession(dict(x=s["x"], y=s["y"], xint=s["xint"], yint=yint, as_list=s["as_list"]))

        def _try(self, op):
            if len(self.sess.ops) >= max_ops:
                return
            if self.sess.admissible(op):
                self.sess.do(op)
            else:
                ctx.count("inadmissible:" + op["op"])

        # ---- domain operations
        @rule(periodic=st.booleans())
        def append(self, periodic):
            self._try(dict(op="append", periodic=periodic))

        @rule(which=st.sampled_from(["shift_x", "shift_y"]), v=st.one_of(st.integers(-20, 20), fl(-1e3, 1e3)))
        def shift(self, which, v):
            self._try(dict(op=which, v=v))

        @rule(which=st.sampled_from(["scale_x", "scale_y"]),
              v=st.one_of(st.sampled_from([2, 2.0, 0.5, 10.0]), fl(1e-2, 1e2)), neg=st.booleans())
        def scale(self, which, v, neg):
            if which == "scale_y" and neg:
                v = -v
            self._try(dict(op=which, v=v))

        @rule(which=st.sampled_from(["normalize_x", "normalize_y"]),
              lo=st.one_of(st.sampled_from([0.0, -1.0, 10.0]), fl(-1e3, 1e3)),
              width=st.one_of(st.sampled_from([1.0, 24.0]), fl(1e-2, 1e3)))
        def normalize(self, which, lo, width):
            self._try(dict(op=which, lo=lo, hi=lo + width))

        @rule(n=st.integers(1, 3))
        def repeat(self, n):
            self._try(dict(op="repeat", n=n))

        @rule(data=st.data())
        def truncate_value(self, data):
            x, _ = self.sess.xy()
            L = len(x)
            if L < 5:
                return
            mode = data.draw(st.sampled_from(["grid", "offgrid", "ratio", "mixed"]))
            i = data.draw(st.integers(0, max(0, L - 5)))
            j = data.draw(st.integers(min(L - 1, i + 4), L - 1))
            if mode == "grid":
                op = dict(op="truncate_value", left=float(x[i]), right=float(x[j]), lr=False, rr=False)
            elif mode == "offgrid":
                t = data.draw(st.sampled_from([0.25, 0.5, 0.75]))
                op = dict(op="truncate_value", left=float(x[i] + t * (x[i + 1] - x[i])),
                          right=float(x[j] - t * (x[j] - x[j - 1])), lr=False, rr=False)
            elif mode == "ratio":
                a = data.draw(st.sampled_from([0.0, 0.1, 0.25, -0.2]))
                b = data.draw(st.sampled_from([1.0, 0.9, 0.75, 1.3]))
                op = dict(op="truncate_value", left=a, right=b, lr=True, rr=True)
            else:
                a = data.draw(st.sampled_from([0.0, 0.1, 0.25]))
                op = dict(op="truncate_value", left=a, right=float(x[j] - 0.5 * (x[j] - x[j - 1])), lr=True, rr=False)
            self._try(op)

        @rule(data=st.data())
        def truncate_index(self, data):
            L = len(self.sess.xy()[0])
            if L < 4:
                return
            start = data.draw(st.integers(0, max(0, L - 4)))
            stop = data.draw(st.one_of(st.none(), st.integers(min(L, start + 4), L)))
            self._try(dict(op="truncate_index", start=start, stop=stop))

        # ---- reshaping operations
        @rule(strategy=st.sampled_from(gens.STRATEGY_NAMES), n=st.integers(2, 8), data=st.data())
        def recreate(self, strategy, n, data):
            kw = data.draw(gens.rfa_params(strategy, n, exp_lo=0.05))
            self._try(dict(op="recreate", strategy=strategy, n=n, kw=kw))

        @rule(rule_=st.sampled_from(["trapezoid", "rectangle"]), ref_rule=st.sampled_from([None, "trapezoid", "rectangle"]),
              alpha=st.sampled_from([None, 0.5, 1.0, 2.0]))
        def match(self, rule_, ref_rule, alpha):
            self._try(dict(op="match", rule=rule_, ref_rule=ref_rule, alpha=alpha))

        @rule(rule_=st.sampled_from(["trapezoid", "rectangle"]), ref_rule=st.sampled_from([None, "trapezoid"]))
        def match_dense(self, rule_, ref_rule):
            self._try(dict(op="match", rule=rule_, ref_rule=ref_rule, alpha=None, loose=True))

        @rule(strategy=st.sampled_from(gens.STRATEGY_NAMES), n=st.integers(2, 6),
              rule_=st.sampled_from(["trapezoid", "rectangle"]), alpha=st.sampled_from([None, 0.5, 2.0]))
        def pipeline(self, strategy, n, rule_, alpha):
            """the documented pipeline as two consecutive operations (gives integral_match real mass)"""
            self._try(dict(op="recreate", strategy=strategy, n=n, kw={}))
            self._try(dict(op="match", rule=rule_, ref_rule=None, alpha=alpha))

        @rule(method=st.sampled_from(["linear", "constant", "cubic", "spline"]), data=st.data())
        def interpolate(self, method, data):
            x, _ = self.sess.xy()
            L = len(x)
            if L < 2:
                return
            if data.draw(st.booleans()):
                n = data.draw(st.one_of(st.integers(2, 12), st.integers(2, min(MAXLEN, 2 * L + 3))))
                self._try(dict(op="interpolate", n=n, new_x=None, method=method))
            else:
                n_orig = len(self.sess.w.get_original()[0])
                k = data.draw(st.one_of(st.integers(0, 20), st.just(max(0, n_orig - 2)), st.just(max(0, L - 2))))
                fr = sorted(data.draw(st.lists(fl(0.001, 0.999), min_size=k, max_size=k, unique=True)))
                nx = [float(x[0])] + [float(x[0] + f * (x[-1] - x[0])) for f in fr] + [float(x[-1])]
                nx = [v for i, v in enumerate(nx) if i == 0 or v > nx[i - 1]]
                if nx[-1] != float(x[-1]):
                    nx[-1] = float(x[-1])
                self._try(dict(op="interpolate", n=None, new_x=nx, method=method, as_list=data.draw(st.booleans())))

        @rule(s=st.one_of(st.just(0.0), fl(1e-4, 1e2)))
        def smooth(self, s):
            self._try(dict(op="smooth", s=s))

        @rule(fun=TREND, normalized=st.booleans())
        def trend(self, fun, normalized):
            self._try(dict(op="trend", fun=fun, normalized=normalized))

        @rule(snr=fl(0.0, 40.0), per_sample=st.booleans(), seed=st.integers(0, 2 ** 31 - 1))
        def noise(self, snr, per_sample, seed):
            L = len(self.sess.xy()[0])
            val = [snr + (i % 5) for i in range(L)] if per_sample else snr
            self._try(dict(op="noise", snr=val, seed=seed, db=True))

        @rule()
        def restore(self):
            self._try(dict(op="restore"))

        @rule(data=st.data())
        def select(self, data):
            """read-only selectors on the current series (they must see the current grid, whatever came before)"""
            if len(self.sess.ops) >= max_ops:
                return
            x, y = self.sess.xy()
            L = len(x)
            if L < 2:
                return
            i = data.draw(st.integers(0, L - 1))
            j = data.draw(st.integers(i, L - 1))
            how = data.draw(st.sampled_from(["value", "value-open-start", "value-open-stop", "index"]))
            self.sess.select(dict(op="select", how=how, i=i, j=j, start=float(x[i]), stop=float(x[j])))

        def teardown(self):
            if self.sess is not None and self.sess.w is not None:
                tr = self.sess.trace()
                cls, nt = (classify_reject if with_rejects else classify)(tr)
                ctx.record(tr, cls[:40], nt)

    if not with_rejects:
        return ProgramMachine

    class RejectMachine(ProgramMachine):
        def _bad(self, bad):
            self.sess.reject(bad)
            ctx.count("rejected:" + bad["kind"])

        @rule(strategy=st.sampled_from(gens.STRATEGY_NAMES), n=st.sampled_from([1, 0, -1, -2]))
        def bad_recreate(self, strategy, n):
            self._bad(dict(kind="recreate_n", strategy=strategy, n=n))

        @rule(which=st.sampled_from(["match_target_rule", "match_reference_rule", "match_search"]),
              name=st.sampled_from(["bogus", "", "no-such-option", "simpson3/8", "median", "42"]))
        def bad_match_name(self, which, name):
            x, _ = self.sess.xy()
            rx, _ = self.sess.ref()
            if wo.match_admissible(x, rx):
                self._bad(dict(kind=which, name=name))

        @rule(data=st.data())
        def bad_fixed_points(self, data):
            x, _ = self.sess.xy()
            L = len(x)
            if L < 4:
                return
            kind = data.draw(st.sampled_from(["match_fixed_not_in_x", "match_too_many_fixed_x",
                                              "match_too_many_fixed_idx"]))
            if kind == "match_fixed_not_in_x":
                i = data.draw(st.integers(0, L - 2))
                how = data.draw(st.sampled_from(["mid", "ulp", "outside"]))
                v = {"mid": float(x[i] + 0.5 * (x[i + 1] - x[i])), "ulp": float(np.nextafter(x[i], np.inf)),
                     "outside": float(x[-1] + 1.0)}[how]
                if v in set(float(t) for t in x):
                    return
                vals = sorted({float(x[0]), v, float(x[-1])})
                self._bad(dict(kind=kind, values=vals))
            elif kind == "match_too_many_fixed_x":
                extra = float(x[-1] + 1.0) if data.draw(st.booleans()) else float(x[0])
                vals = [float(v) for v in x] + [extra]
                self._bad(dict(kind=kind, values=vals))
            else:
                self._bad(dict(kind=kind, values=list(range(L)) + [0]))

        @rule(data=st.data())
        def bad_truncate_value(self, data):
            x, _ = self.sess.xy()
            rx, _ = self.sess.ref()
            if len(x) < 2 or len(rx) < 2:
                return
            combo = data.draw(st.sampled_from(["abs", "ratio", "mixed_lr", "mixed_rr", "equal", "ref_only",
                                               "work_only"]))
            span, rspan = float(x[-1] - x[0]), float(rx[-1] - rx[0])
            if combo == "abs":
                i = data.draw(st.integers(0, len(x) - 2))
                bad = dict(left=float(x[i + 1]), right=float(x[i]), lr=False, rr=False)
            elif combo == "equal":
                i = data.draw(st.integers(0, len(x) - 1))
                bad = dict(left=float(x[i]), right=float(x[i]), lr=False, rr=False)
            elif combo == "ratio":
                a = data.draw(st.sampled_from([0.5, 0.75, 1.0]))
                b = data.draw(st.sampled_from([0.0, 0.25, 0.5]))
                bad = dict(left=a, right=b, lr=True, rr=True)
            elif combo == "mixed_lr":
                # left as ratio 0.9, right absolute below both series' 90% point
                bad = dict(left=0.9, right=float(min(x[0], rx[0]) + 0.1 * min(span, rspan)), lr=True, rr=False)
            elif combo == "mixed_rr":
                bad = dict(left=float(max(x[0] + 0.9 * span, rx[0] + 0.9 * rspan)), right=0.1, lr=False, rr=True)
            else:
                # inverted for one series only: needs different starts/spans of working and reference series
                lo_w, lo_r = float(x[0]), float(rx[0])
                if combo == "ref_only":
                    # left ratio r gives working bound lo_w + r*span, reference bound lo_r + r*rspan; choose an absolute
                    # right bound between them when the reference's is larger
                    r = 0.5
                    bw, br = lo_w + r * span, lo_r + r * rspan
                    if not br > bw + 1e-6 * (abs(bw) + abs(br) + 1e-300):
                        return
                    bad = dict(left=r, right=float(bw + 0.5 * (br - bw)), lr=True, rr=False)
                else:
                    r = 0.5
                    bw, br = lo_w + r * span, lo_r + r * rspan
                    if not bw > br + 1e-6 * (abs(bw) + abs(br) + 1e-300):
                        return
                    bad = dict(left=r, right=float(br + 0.5 * (bw - br)), lr=True, rr=False)
            # make sure it really is inverted for at least one series (the one truncated first or second)
            inv = []
            for xs_ in (x, rx):
                _, _, left, right = wo.model_truncate_bounds([float(v) for v in xs_], bad["left"], bad["right"], bad["lr"],
                                                             bad["rr"])
                inv.append(left >= right)
            if not any(inv):
                return
            bad["kind"] = "truncate_inverted"
            bad["inverted_for"] = "both" if all(inv) else ("working" if inv[0] else "reference")
            ctx.count("truncate_inverted:" + bad["inverted_for"])
            self._bad(bad)

        @rule(data=st.data())
        def bad_index(self, data):
            L = len(self.sess.xy()[0])
            which = data.draw(st.sampled_from(["truncate_index_range", "slice_index_range"]))
            if data.draw(st.booleans()):
                bad = dict(kind=which, start=-data.draw(st.integers(1, 5)), stop=data.draw(st.sampled_from([None, L])))
            else:
                bad = dict(kind=which, start=data.draw(st.integers(0, max(0, L - 1))), stop=L + data.draw(st.integers(1, 5)))
            if which == "slice_index_range" and data.draw(st.booleans()):
                # an out-of-range bound stays out of range whatever the stride
                bad["step"] = data.draw(st.integers(1, 6))
                ctx.count("slice-index:with-step")
            self._bad(bad)

        @rule(data=st.data())
        def bad_slice_value(self, data):
            x, _ = self.sess.xy()
            L = len(x)
            if L < 2:
                return
            i = data.draw(st.integers(0, L - 2))
            how = data.draw(st.sampled_from(["mid", "ulp", "outside-low", "outside-high", "stale", "stale"]))
            if how == "stale":
                # a value that was a sample earlier in this history (or of the original series) but is none now
                ox = [float(t) for t in self.sess.w.get_original()[0]] + list(getattr(self.sess, "seen_x", []))
                cur = set(float(t) for t in x)
                old = [t for t in ox if t not in cur]
                if not old:
                    return
                v = old[data.draw(st.integers(0, len(old) - 1))]
                ctx.count("slice-value:stale-sample")
            else:
                v = {"mid": float(x[i] + 0.5 * (x[i + 1] - x[i])), "ulp": float(np.nextafter(x[i + 1], -np.inf)),
                     "outside-low": float(x[0] - 1.0), "outside-high": float(x[-1] + 1.0)}[how]
            if v in set(float(t) for t in x):
                return
            if data.draw(st.booleans()):
                self._bad(dict(kind="slice_value_absent", start=v, stop=data.draw(st.sampled_from([None, float(x[-1])]))))
            else:
                self._bad(dict(kind="slice_value_absent", start=data.draw(st.sampled_from([None, float(x[0])])), stop=v))

        @rule(data=st.data())
        def bad_interpolate(self, data):
            x, _ = self.sess.xy()
            L = len(x)
            if L < 2:
                return
            which = data.draw(st.sampled_from(["interpolate_method", "interpolate_ends", "interpolate_nothing"]))
            if which == "interpolate_method":
                self._bad(dict(kind=which, n=data.draw(st.integers(2, 9)),
                               name=data.draw(st.sampled_from(["bogus", "", "no-such-method", "42", "wavelet7"]))))
            elif which == "interpolate_nothing":
                self._bad(dict(kind=which, method=data.draw(st.sampled_from(["linear", "constant"]))))
            else:
                end = data.draw(st.sampled_from(["first", "last", "both"]))
                nx = [float(x[0]), float(x[0] + 0.5 * (x[-1] - x[0])), float(x[-1])]
                d = 0.25 * float(x[-1] - x[0])
                if end in ("first", "both"):
                    nx[0] = nx[0] + data.draw(st.sampled_from([d, -d]))
                if end in ("last", "both"):
                    nx[2] = nx[2] + data.draw(st.sampled_from([d, -d]))
                bad = dict(kind=which, new_x=nx, method=data.draw(st.sampled_from(["linear", "constant", "cubic"])),
                           as_list=data.draw(st.booleans()))
                if data.draw(st.integers(0, 2)) == 0:
                    bad["n"] = data.draw(st.sampled_from([3, 2, 9, L]))
                    ctx.count("interpolate-ends:with-n")
                if bad["method"] in ("linear", "constant") and data.draw(st.integers(0, 2)) == 0:
                    # otherwise valid keywords of the method (fill values outside the data) do not make the grid valid
                    bad["fill"] = data.draw(st.sampled_from([dict(left=0.0), dict(right=0.0), dict(left=-1.0, right=1.0)]))
                    ctx.count("interpolate-ends:with-fill-keywords")
                self._bad(bad)

    return RejectMachine
