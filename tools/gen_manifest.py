#!/venv/bin/python
"""Regenerates MANIFEST.json from the property modules present in twv/props (run after adding a module)."""
import importlib
import json
import os
import sys

HERE = os.path.dirname(os.path.dirname(os.path.abspath(__file__)))
sys.path.insert(0, HERE)
sys.path.insert(0, "/repo/src")

META = {
    # id: (category, technique, level text, level note)
}


def main():
    props = [json.loads(l) for l in open(os.path.join(HERE, "properties.jsonl"))]
    checks = []
    not_applicable = []
    for p in props:
        pid = p["id"]
        path = os.path.join(HERE, "twv", "props", pid.lower() + ".py")
        if not os.path.exists(path):
            not_applicable.append(dict(property_id=pid, reason="check not built yet (planned in DESIGN.md section 5)"))
            continue
        mod = importlib.import_module(f"twv.props.{pid.lower()}")
        checks.append(dict(
            property_id=pid,
            quick_cmd=f"./check {pid} quick",
            thorough_cmd=f"./check {pid} thorough",
            evidence_file=f"/verif/evidence/{pid}.json",
            replay_cmd_template=f"./check {pid} --replay {{path}}",
            engine="twv",
            level_claimed=dict(category=mod.LEVEL, text=mod.LEVEL_TEXT, design_ref=f"DESIGN.md section 5, {pid}"),
            level_note=mod.LEVEL_NOTE,
            technique=mod.TECHNIQUE,
        ))
    manifest = dict(
        version=1,
        setup_cmd="./setup.sh",
        hooks=dict(
            guard="TRAFFIC_WEAVER_VERIF",
            enable="no hooks are compiled in: the harness imports /repo/src directly and observes internals by "
                   "patching module globals (numpy.random.normal in traffic_weaver.process, urlretrieve / "
                   "time.sleep / os.rename / pickle in traffic_weaver.datasets._base) from the harness process",
            baseline_off_cmd="cd /repo && /venv/bin/python -m pytest -ra -q -p no:cacheprovider --timeout=900 "
                             "--continue-on-collection-errors",
            source_commits=[],
            add_only=True,
        ),
        engines=[dict(name="twv", path="/verif/twv", serves_properties=[c["property_id"] for c in checks],
                      kind_free_text="property-based testing: Hypothesis 6.168 strategies and rule-based state "
                                     "machines, exhaustive itertools enumeration of the finite sub-spaces, explicit "
                                     "reference-model / round-trip / metamorphic oracles, seeded by VERIF_SEED, "
                                     "shrunk failures written as JSON replay files")],
        checks=checks,
        notes="Entry point ./check <ID> quick|thorough|--replay <file>; known findings in known_findings.json; "
              "regressions/ are replayed first on every run; ./mutate and seeded/ hold the sensitivity evidence.",
        not_applicable=not_applicable,
    )
    with open(os.path.join(HERE, "MANIFEST.json"), "w") as f:
        json.dump(manifest, f, indent=1)
        f.write("\n")
    try:
        import jsonschema
        jsonschema.validate(manifest, json.load(open("/root/.vp/MANIFEST.schema.json")))
        print("MANIFEST.json valid;", len(checks), "checks,", len(not_applicable), "not applicable")
    except ImportError:
        print("jsonschema not importable here; run tools/validate.sh")


if __name__ == "__main__":
    main()
