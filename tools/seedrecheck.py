#!/venv/bin/python
"""Fast re-check of the kept seeded changes after the checks were edited: every seeded/<id>/patch.diff is applied to a
scratch copy of /repo/src and the quick check of the property that caught it (meta.json: checks with status killed)
must still exit 1.   usage: tools/seedrecheck.py [-j N] [id-prefix ...]      (evidence about the checks, not a check)"""
import concurrent.futures
import glob
import json
import os
import shutil
import subprocess
import sys
import tempfile

HERE = os.path.dirname(os.path.dirname(os.path.abspath(__file__)))


def one(d):
    meta = json.load(open(os.path.join(d, "meta.json")))
    name = meta["id"]
    home = meta["breaks_property"]
    killers = [k for k, v in meta["checks"].items() if v["status"] == "killed"]
    prop = home if home in killers else (killers[0] if killers else home)
    tmp = tempfile.mkdtemp(prefix="twv-recheck-")
    try:
        shutil.copytree("/repo/src", os.path.join(tmp, "src"), ignore=shutil.ignore_patterns("__pycache__", "*.egg-info"))
        a = subprocess.run(["patch", "-p1", "-s", "-d", tmp, "-i", os.path.join(d, "patch.diff")], capture_output=True, text=True)
        if a.returncode != 0:
            return name, prop, "patch-failed", a.stdout[-200:]
        env = dict(os.environ, TWV_SRC=os.path.join(tmp, "src"), TWV_NO_EVIDENCE="1", TWV_NPROC="4")
        c = subprocess.run([os.path.join(HERE, "check"), prop, "quick"], env=env, capture_output=True, text=True)
        first = next((l for l in c.stdout.splitlines() if l.startswith("--- ")), "")
        return name, prop, {0: "SURVIVED", 1: "killed", 2: "HARNESS-ERROR"}.get(c.returncode, str(c.returncode)), first[:160]
    finally:
        shutil.rmtree(tmp, ignore_errors=True)


def main():
    args = sys.argv[1:]
    j = 4
    if args[:1] == ["-j"]:
        j = int(args[1]); args = args[2:]
    dirs = sorted(glob.glob(os.path.join(HERE, "seeded", "*", "meta.json")))
    dirs = [os.path.dirname(d) for d in dirs if not args or any(os.path.basename(os.path.dirname(d)).startswith(a) for a in args)]
    bad = 0
    with concurrent.futures.ThreadPoolExecutor(j) as ex:
        for name, prop, status, first in ex.map(one, dirs):
            if status != "killed":
                bad += 1
                print(f"{name} {prop}: {status} {first}", flush=True)
    print(f"rechecked {len(dirs)} seeded changes, {bad} not killed")
    return 1 if bad else 0


if __name__ == "__main__":
    sys.exit(main())
