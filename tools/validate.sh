#!/bin/bash
# validates MANIFEST.json and every evidence file against the schemas (tooling venv has jsonschema)
cd "$(dirname "$0")/.." || exit 2
python3-vt - <<'PY'
import json, glob, jsonschema, sys
ok = True
m = json.load(open("MANIFEST.json"))
jsonschema.validate(m, json.load(open("/root/.vp/MANIFEST.schema.json")))
print("MANIFEST ok:", len(m["checks"]), "checks")
es = json.load(open("/root/.vp/EVIDENCE.schema.json"))
for c in m["checks"]:
    p = c["evidence_file"]
    try:
        jsonschema.validate(json.load(open(p)), es)
        print("ok", p)
    except Exception as e:
        ok = False
        print("INVALID", p, str(e)[:300])
sys.exit(0 if ok else 1)
PY
