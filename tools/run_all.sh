#!/bin/bash
# runs every registered quick (or $1=thorough) command; prints one line per property
cd "$(dirname "$0")/.." || exit 2
tier="${1:-quick}"
for id in $(python3 -c "import json;print(' '.join(c['property_id'] for c in json.load(open('MANIFEST.json'))['checks']))"); do
  s=$(date +%s.%N)
  out=$(./check "$id" "$tier" 2>&1); rc=$?
  e=$(date +%s.%N)
  printf "%s rc=%d %.1fs %s\n" "$id" "$rc" "$(echo "$e - $s" | bc)" "$(echo "$out" | grep -E '^(OK|VIOLATION|HARNESS)' | head -2 | tr '\n' ' ')"
  echo "$out" | grep '^KNOWN-FINDING' | cut -c1-120
done
