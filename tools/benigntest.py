#!/venv/bin/python
"""Runs the checks against a BENIGN change (one that keeps the property): every check must stay quiet.

  tools/benigntest.py <dir with patch.diff and demo.py> <property id> [more property ids | all]

Steps (all in a scratch worktree of /repo under $TMPDIR, removed afterwards; /repo itself is never touched):
  1. demo.py on the clean tree           -> must exit 0
  2. git apply patch.diff
  3. the pinned test-suite on the patched tree -> same set of passing tests as on the clean tree
  4. demo.py on the patched tree         -> must exit 0 as well (the author's own randomized test of the statement)
  5. ./check <ID> quick with TWV_SRC=<worktree>/src for the requested properties -> quiet / ALARM
Prints a JSON summary (also usable as the 'ran' part of meta.json)."""
import json
import os
import subprocess
import sys
import tempfile
import xml.etree.ElementTree as ET

HERE = os.path.dirname(os.path.dirname(os.path.abspath(__file__)))
PY = "/venv/bin/python"
_CLEAN_CACHE = os.path.join(tempfile.gettempdir(), "twv-clean-tests.json")


def run_suite(tree):
    xml = os.path.join(tree, "junit-seed.xml")
    subprocess.run([PY, "-m", "pytest", "-q", "-p", "no:cacheprovider", "--timeout=900", "--continue-on-collection-errors",
                    f"--junitxml={xml}", "-o", "addopts=--doctest-modules -W ignore::DeprecationWarning "
                    "--ignore-glob=tests/*_integration_test.py"], cwd=tree, capture_output=True, text=True)
    passed = set()
    for tc in ET.parse(xml).getroot().iter("testcase"):
        if not any(ch.tag in ("failure", "error", "skipped") for ch in tc):
            passed.add(f"{tc.get('classname')}::{tc.get('name')}")
    os.unlink(xml)
    return passed


def main():
    d = os.path.abspath(sys.argv[1])
    props = sys.argv[2:]
    if props == ["all"]:
        props = [c["property_id"] for c in json.load(open(os.path.join(HERE, "MANIFEST.json")))["checks"]]
    tier = os.environ.get("SEED_TIER", "quick")
    tmp = tempfile.mkdtemp(prefix="twv-benign-")
    tree = os.path.join(tmp, "wt")
    subprocess.check_call(["git", "-C", "/repo", "worktree", "add", "-q", "--detach", tree, "HEAD"])
    out = dict(dir=d, head=subprocess.check_output(["git", "-C", "/repo", "rev-parse", "--short", "HEAD"], text=True).strip())
    try:
        env = dict(os.environ, PYTHONPATH=os.path.join(tree, "src"))
        demo = os.path.join(d, "demo.py")
        r = subprocess.run([PY, demo], env=env, capture_output=True, text=True, cwd=tmp)
        out["demo_clean_exit"] = r.returncode
        clean = run_suite(tree)
        a = subprocess.run(["git", "-C", tree, "apply", os.path.join(d, "patch.diff")], capture_output=True, text=True)
        out["patch_applies"] = a.returncode == 0
        if a.returncode != 0:
            out["apply_error"] = a.stderr[-500:]
            print(json.dumps(out, indent=1))
            return 1
        patched = run_suite(tree)
        out["tests_passing_clean"] = len(clean)
        out["tests_passing_patched"] = len(patched)
        out["tests_lost"] = sorted(clean - patched)
        out["tests_gained"] = sorted(patched - clean)
        r = subprocess.run([PY, demo], env=env, capture_output=True, text=True, cwd=tmp)
        out["demo_patched_exit"] = r.returncode
        out["demo_patched_output"] = (r.stdout + r.stderr)[-400:]
        out["confirmed"] = (out["demo_clean_exit"] == 0 and out["demo_patched_exit"] == 0 and not out["tests_lost"]
                            and not out["tests_gained"])
        res = {}
        for p in props:
            env2 = dict(os.environ, TWV_SRC=os.path.join(tree, "src"), TWV_NO_EVIDENCE="1")
            c = subprocess.run([os.path.join(HERE, "check"), p, tier], env=env2, capture_output=True, text=True)
            status = {0: "quiet", 1: "ALARM", 2: "harness-error"}.get(c.returncode, str(c.returncode))
            first = next((l for l in c.stdout.splitlines() if l.startswith("--- ")), "")
            res[p] = dict(status=status, first=first[:300])
        out["checks"] = res
        print(json.dumps(out, indent=1))
        return 0
    finally:
        subprocess.call(["git", "-C", "/repo", "worktree", "remove", "--force", tree])
        subprocess.call(["rm", "-rf", tmp])


if __name__ == "__main__":
    sys.exit(main())
