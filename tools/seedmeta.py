#!/venv/bin/python
"""Writes seeded/<id>/meta.json from a seedtest result (tools/seedtest.py output) and a one-line 'needs' text.
   usage: tools/seedmeta.py <seedtest-json> <seeded dir> "<needs>" """
import json
import os
import sys

res = json.load(open(sys.argv[1]))
d = sys.argv[2]
name = os.path.basename(d.rstrip("/"))
prop = name.split("-")[0]
meta = dict(
    id=name,
    breaks_property=prop,
    origin="written by a fresh sub-agent that was given only the property text and its own scratch worktree",
    needs_to_manifest=sys.argv[3],
    confirmed=dict(
        repo_commit=res["head"],
        demo_exit_on_clean_tree=res["demo_clean_exit"],
        demo_exit_with_patch=res["demo_patched_exit"],
        pinned_suite_passing_clean=res["tests_passing_clean"],
        pinned_suite_passing_patched=res["tests_passing_patched"],
        tests_lost=res["tests_lost"], tests_gained=res["tests_gained"],
        how="tools/seedtest.py: scratch worktree of /repo under $TMPDIR, demo.py on the clean tree, git apply "
            "patch.diff, pinned pytest suite (same set of passing tests), demo.py again, then ./check <ID> quick with "
            "TWV_SRC pointing at the patched worktree; worktree removed afterwards",
    ),
    checks={k: dict(status=v["status"], first_violation=v["first"]) for k, v in res.get("checks", {}).items()},
)
with open(os.path.join(d, "meta.json"), "w") as f:
    json.dump(meta, f, indent=1)
    f.write("\n")
print(name, {k: v["status"] for k, v in res.get("checks", {}).items()})
