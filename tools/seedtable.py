#!/venv/bin/python
"""Prints the markdown table of seeded changes (DESIGN.md section 9) from seeded/*/meta.json."""
import glob
import json
import os

HERE = os.path.dirname(os.path.dirname(os.path.abspath(__file__)))
rows = []
for f in sorted(glob.glob(os.path.join(HERE, "seeded", "*", "meta.json"))):
    m = json.load(open(f))
    killed = [k for k, v in m["checks"].items() if v["status"] == "killed"]
    missed = [k for k, v in m["checks"].items() if v["status"] != "killed"]
    home = m["breaks_property"]
    sub = ""
    if home in m["checks"] and m["checks"][home]["status"] == "killed":
        first = m["checks"][home]["first_violation"]
        sub = first.split(":")[0].replace("--- ", "") if first else ""
    rows.append((m["id"], m["needs_to_manifest"], ", ".join(killed) or "-", sub, ", ".join(missed) or "-"))
print("| change | needs, in order to manifest | caught by (quick tier) | home sub-check | also run, not caught |")
print("|---|---|---|---|---|")
for r in rows:
    print("| " + " | ".join(c.replace("|", "\\|") for c in r) + " |")
