#!/venv/bin/python
"""Prints the markdown table of benign (property-preserving) changes for DESIGN.md section 9a from benign/*/meta.json."""
import glob
import json
import os

HERE = os.path.dirname(os.path.dirname(os.path.abspath(__file__)))
print("| change | what it does (the property still holds) | checks run, all quiet | alarms |")
print("|---|---|---|---|")
for f in sorted(glob.glob(os.path.join(HERE, "benign", "*", "meta.json"))):
    m = json.load(open(f))
    quiet = [k for k, v in m["checks"].items() if v["status"] == "quiet"]
    loud = [f"{k}: {v['status']}" for k, v in m["checks"].items() if v["status"] != "quiet"]
    note = (" (" + m["note"] + ")") if m.get("note") else ""
    print("| " + " | ".join([m["id"], m["what"].replace("|", "\\|"), ", ".join(quiet) or "-", (", ".join(loud) or "-") + note]) + " |")
