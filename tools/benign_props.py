#!/venv/bin/python
"""prints the property ids whose anchored files are touched by a patch (plus the home property)
   usage: tools/benign_props.py <dir with patch.diff>"""
import json, os, re, sys
HERE = os.path.dirname(os.path.dirname(os.path.abspath(__file__)))
d = sys.argv[1].rstrip("/")
home = os.path.basename(d).split("-")[0]
files = set(re.findall(r"^\+\+\+ b/(\S+)", open(os.path.join(d, "patch.diff")).read(), re.M))
out = [home]
for line in open(os.path.join(HERE, "properties.jsonl")):
    p = json.loads(line)
    anchored = p["anchors"]["files"]
    if any(f == a or f.startswith(a) for f in files for a in anchored) and p["id"] not in out:
        out.append(p["id"])
print(" ".join(out))
