#!/venv/bin/python
"""Writes benign/<id>/meta.json from a tools/benigntest.py result.   usage: tools/benignmeta.py <result.json> <benign dir> [note]"""
import json
import os
import re
import sys

res = json.load(open(sys.argv[1]))
d = sys.argv[2].rstrip("/")
name = os.path.basename(d)
readme = open(os.path.join(d, "README.md")).read()
title = next((l.strip("# ").strip() for l in readme.splitlines() if l.strip()), name)
title = re.sub(r"^%s\s*[-:–—]*\s*" % re.escape(name), "", title).strip()
meta = dict(
    id=name,
    keeps_property=name.split("-")[0],
    origin="written by a fresh sub-agent that was given only the property text and its own scratch worktree, and asked for "
           "realistic changes that keep the property true while changing how the result is computed",
    what=title[:300],
    confirmed=dict(
        repo_commit=res["head"], demo_exit_on_clean_tree=res["demo_clean_exit"], demo_exit_with_patch=res.get("demo_patched_exit"),
        pinned_suite_passing_clean=res.get("tests_passing_clean"), pinned_suite_passing_patched=res.get("tests_passing_patched"),
        tests_lost=res.get("tests_lost"), tests_gained=res.get("tests_gained"),
        how="tools/benigntest.py: scratch worktree of /repo, the author's randomized self-check of the statement (demo.py) on "
            "the clean and on the patched tree (both must pass), pinned pytest suite (same set of passing tests), then "
            "./check <ID> quick with TWV_SRC pointing at the patched tree for the home property and every property "
            "anchored in a touched file; worktree removed afterwards"),
    checks={k: dict(status=v["status"], first_line=v["first"]) for k, v in res.get("checks", {}).items()},
)
if len(sys.argv) > 3:
    meta["note"] = sys.argv[3]
with open(os.path.join(d, "meta.json"), "w") as f:
    json.dump(meta, f, indent=1)
    f.write("\n")
print(name, {k: v["status"] for k, v in res.get("checks", {}).items()})
