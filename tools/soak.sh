#!/bin/bash
# quick tier of every registered check under many VERIF_SEED values; prints only the runs that are not quiet
cd "$(dirname "$0")/.." || exit 2
from="${1:-100}"; to="${2:-120}"
for seed in $(seq "$from" "$to"); do
  for id in $(python3 -c "import json;print(' '.join(c['property_id'] for c in json.load(open('MANIFEST.json'))['checks']))"); do
    out=$(VERIF_SEED=$seed TWV_NO_EVIDENCE=1 ./check "$id" quick 2>&1); rc=$?
    if [ $rc -ne 0 ]; then echo "seed=$seed $id rc=$rc"; echo "$out" | grep -E '^(---|VIOLATION|HARNESS)' | head -4;  fi
  done
  echo "seed $seed done"
done
