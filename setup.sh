#!/bin/bash
# Offline set-up: make sure hypothesis (required) and atheris (optional engine of C10's fuzz sub-check) are
# importable by the repository's interpreter; missing ones are installed from the wheelhouse into /verif/.deps.
HERE="$(cd "$(dirname "${BASH_SOURCE[0]}")" && pwd)"
PY="${TWV_PYTHON:-/venv/bin/python}"
need=""
for pkg in hypothesis atheris; do
  if ! PYTHONPATH="$HERE/.deps" "$PY" -c "import $pkg" 2>/dev/null; then need="$need $pkg"; fi
done
if [ -n "$need" ]; then
  "$PY" -m pip install --quiet --no-index --find-links /opt/veriftools/wheels --target "$HERE/.deps" $need || true
fi
PYTHONPATH="$HERE/.deps" "$PY" -c "import hypothesis; print('hypothesis', hypothesis.__version__)" || exit 1
PYTHONPATH="$HERE/.deps" "$PY" -c "import atheris; print('atheris available')" || echo "atheris not available: C10.fuzz will report fuzz-engine-unavailable"
exit 0
