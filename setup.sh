#!/bin/bash
# Offline set-up: make sure hypothesis is importable by the repository's interpreter.
HERE="$(cd "$(dirname "${BASH_SOURCE[0]}")" && pwd)"
PY="${TWV_PYTHON:-/venv/bin/python}"
if "$PY" -c "import hypothesis" 2>/dev/null; then echo "hypothesis already importable"; exit 0; fi
if PYTHONPATH="$HERE/.deps" "$PY" -c "import hypothesis" 2>/dev/null; then echo "hypothesis in .deps"; exit 0; fi
"$PY" -m pip install --no-index --find-links /opt/veriftools/wheels --target "$HERE/.deps" hypothesis || exit 1
PYTHONPATH="$HERE/.deps" "$PY" -c "import hypothesis; print('hypothesis', hypothesis.__version__)"
